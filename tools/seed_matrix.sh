#!/bin/bash
# runs every stored seed against its own property's quick check
cd /verif
for d in seeded/*/; do
  id=$(basename $d); p=${id%%-*}; grep -q neutralised $d/meta.json && { echo "$id :: neutralised, skipped"; continue; }
  out=$(tools/seed_run.sh $id $p 2>&1 | grep -E "^(exit=|C[0-9]+ quick)" | tr '\n' ' ')
  echo "$id $p :: $out"
done
