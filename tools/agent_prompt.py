#!/usr/bin/env python3
"""agent_prompt.py <PROPERTY-ID> <tag>  - prints the brief given to a fresh sub-agent that writes an
independent property-breaking change.  The brief contains the property's text, the scratch worktree and
a one-line list of ideas already taken by earlier agents (so that rounds do not repeat each other);
nothing about the checks in /verif."""
import json, re, sys

pid, tag = sys.argv[1], sys.argv[2]
prop = None
for line in open('/verif/properties.jsonl'):
    p = json.loads(line)
    if p['id'] == pid:
        prop = p
assert prop, pid

taken = []
for line in open('/verif/DESIGN.md'):
    m = re.match(r'\| (C\d\d-[a-z]) \| (.*?) \|', line)
    if m and m.group(1).startswith(pid):
        taken.append(m.group(2))
import glob, os
for d in sorted(glob.glob('/verif/seeded/%s-*' % pid)):
    sid = os.path.basename(d)
    if not any(True for l in open('/verif/DESIGN.md') if l.startswith('| %s |' % sid)):
        try:
            taken.append(json.load(open(d + '/meta.json'))['summary'][:260])
        except Exception:
            pass

wt = '/tmp/wt-%s' % tag
anch = prop['anchors']
text = f"""You are helping to evaluate a verification effort for the open-source project omec-project/upf (a Go PFCP agent
for a 4G/5G UPF, package `pfcpiface`, plus `conf/route_control.py`). Your job is to write ONE realistic change to the
project that BREAKS the property below while the project still compiles and its existing test suite still passes, and
a small demonstration (a Go test file, or a python script if the property is about route_control.py) that FAILS with
your change and PASSES without it.

Your private scratch git worktree of the project is {wt} (already created). Work ONLY there. Do not read or
write /repo, /verif or any other worktree. Nothing outside {wt} is relevant to you.

Build/test environment (no network): in every shell call
    export GOFLAGS=-mod=mod GOPROXY=off        # do NOT set GOSUMDB or GOTOOLCHAIN
The existing suite is:  cd {wt} && go test -vet=off -count=1 ./pfcpiface/... ./cmd/...
(for route_control.py additionally: cd {wt}/conf && python3 -m unittest test_route_control ; pyroute2/scapy/pybess
are not installed, the existing test stubs them, your demonstration has to stub them too).

THE PROPERTY ({prop['id']}: {prop['title']})

Statement: {prop['statement']}

Quantified over: {prop['quantifier']['text']}

Why the existing tests cannot settle it: {prop['why_tests_cant']}

Where it lives: files {', '.join(anch.get('files', []))}
Mechanisms the property depends on:
""" + '\n'.join('  - %s (%s)' % (m['name'], m['where']) for m in anch.get('mechanism', [])) + f"""

WHAT KIND OF CHANGE

* It must look like something a developer could plausibly commit: a refactoring slip, an "optimisation", a tidy-up, a
  feature tweak, a cache, a reordered pair of statements, a helper that is subtly wrong, an off-by-one, a shared buffer.
  Not sabotage, not a deleted feature, not a comment saying "bug".  5-60 changed lines.
* It must need something SPECIFIC to manifest: a particular interleaving, a fault or crash at a particular point, a
  multi-step sequence of operations, an unusual but legal input, a particular ordering of information elements, a
  second session/association/next hop, or two sites that each look fine alone. A change that the first ordinary
  request exposes is not wanted.
* The property must really be violated according to its statement (observable: wrong/missing/extra response, wrong
  datapath contents, leaked or doubly given resource, crash, hang, wrong route modules ...), not merely an internal
  invariant of your own making.
* The existing test suite must still pass, unedited. go vet should stay clean for the changed files.
* Choose a site and a mechanism DIFFERENT from these ideas, which earlier people already used for this property:
""" + ('\n'.join('    - ' + t for t in taken) if taken else '    (none yet)') + f"""
  Prefer a part of the property's statement (a clause, an input class, an ending path, a message type, a plug-in:
  BESS vs UP4/P4Runtime) that none of them touches.

DELIVERABLES (all under {wt}/_deliver/, and leave the worktree otherwise pristine: `git status --short` shows only
`?? _deliver/`):

  _deliver/patch.diff            `git diff` of your change against the worktree's HEAD (must apply with `git apply`)
  _deliver/demo/zz_demo_test.go  package pfcpiface, test function(s) named TestDemo{tag}...; self-contained (its own
                                 fakes; unique helper names prefixed demo{tag}); passes on the pristine worktree, fails
                                 with the patch.  (python: _deliver/demo/zz_demo_route_control.py, exit 0 / exit 1.)
                                 It must be deterministic: if the defect needs an interleaving, force it (hooks in the
                                 fakes, channels) instead of sleeping and hoping.
  _deliver/demo/RUN.txt          the one command that runs the demonstration
  _deliver/meta.json             {{"property": "{tag}", "summary": "<what was changed and why it breaks the property>",
                                  "needs": "<what exactly is needed for it to manifest, and what stays invisible>",
                                  "ran": ["<each command you ran and its outcome>"]}}

Before you finish, verify yourself, in this order, and record the commands in meta.json: pristine + demo passes;
patch applies; `go build ./...`; the existing suite passes with the patch (demo file absent); patch + demo fails;
`git checkout -- .` and remove your demo file from pfcpiface/ so the worktree is pristine again.
Your final message: three lines - what you changed, what it needs to manifest, and whether all verifications succeeded.
"""
print(text)
