#!/bin/bash
# seed_run.sh <seed-id> <property> [tier]  - applies a stored seeded change to /repo, runs the check, reverts.
ID=$1; P=$2; T=${3:-quick}
cd /repo && git diff --quiet || { echo "/repo not clean"; exit 2; }
git -C /repo apply /verif/seeded/$ID/patch.diff || exit 2
cd /verif && ./vcheck $P --tier $T > /tmp/seedrun-$ID-$P.log 2>&1; rc=$?
git -C /repo checkout -- .
git -C /verif checkout -- evidence replay 2>/dev/null; git -C /verif clean -fdq replay
grep -aE '^(VIOLATION|KNOWN|INFRA|C[0-9]+ )' /tmp/seedrun-$ID-$P.log | cut -c1-300 | head -8
echo "exit=$rc"
