#!/bin/bash
# seed_verify.sh <worktree> <seed-id>
# Confirms an independently written property-breaking change: (1) applies cleanly, (2) project builds,
# (3) the existing suite passes with it, (4) the demonstration fails with it, (5) passes without it.
# On success the change is stored under /verif/seeded/<seed-id>/ and the worktree is left pristine.
set -u
WT=$1; ID=$2
export GOFLAGS=-mod=mod GOPROXY=off
D=$WT/_deliver
cd $WT || exit 2
git checkout -q -- . ; rm -f pfcpiface/zz_demo*_test.go
git apply --check $D/patch.diff || { echo "FAIL: patch does not apply"; exit 1; }
demo_run() { # runs all delivered demo tests; returns go test status
  cp $D/demo/*_test.go pfcpiface/ 2>/dev/null
  pat=$(grep -ho 'func Test[A-Za-z0-9_]*' $D/demo/*_test.go | sed 's/func //' | paste -sd'|')
  go test -vet=off -count=1 -run "^($pat)\$" ./pfcpiface/ > /tmp/seed-$ID-demo.log 2>&1; rc=$?
  rm -f pfcpiface/zz_demo*_test.go; for f in $D/demo/*_test.go; do rm -f pfcpiface/$(basename $f); done
  return $rc
}
demo_run; r0=$?
[ $r0 -eq 0 ] || { echo "FAIL: demo does not pass on pristine tree"; tail -20 /tmp/seed-$ID-demo.log; exit 1; }
git apply $D/patch.diff
go build ./... > /tmp/seed-$ID-build.log 2>&1 || { echo "FAIL: does not build"; git checkout -q -- .; exit 1; }
go test -vet=off -count=1 ./pfcpiface/... ./cmd/... > /tmp/seed-$ID-suite.log 2>&1; rs=$?
if [ -f $D/patch.diff ] && grep -q 'route_control.py' $D/patch.diff; then (cd conf && python3 -m unittest test_route_control 2>&1 | tail -3) ; fi
demo_run; r1=$?
git checkout -q -- .
[ $rs -eq 0 ] || { echo "FAIL: existing suite fails with the change"; tail -20 /tmp/seed-$ID-suite.log; exit 1; }
[ $r1 -ne 0 ] || { echo "FAIL: demo passes with the change"; exit 1; }
mkdir -p /verif/seeded/$ID/demo
cp $D/patch.diff /verif/seeded/$ID/; cp -r $D/demo/. /verif/seeded/$ID/demo/; cp $D/meta.json /verif/seeded/$ID/meta.json
echo "OK: $ID confirmed (suite passes, demo fails with / passes without)"
