package vtime

import (
	"time"

	"github.com/omec-project/upf-epc/pfcpiface/internal/verif/vsched"
)

type Timer struct {
	C  <-chan time.Time
	c  chan time.Time
	rt *time.Timer
	h  *vsched.TimerHandle
}

func NewTimer(d time.Duration) *Timer {
	if !vsched.Active() {
		rt := time.NewTimer(d)
		return &Timer{C: rt.C, rt: rt}
	}
	c := make(chan time.Time, 1)
	t := &Timer{C: c, c: c}
	t.h = vsched.AddTimer(d, true, func(now time.Time) {
		select {
		case c <- now:
		default:
		}
	})
	return t
}
func (t *Timer) Stop() bool {
	if t.rt != nil {
		return t.rt.Stop()
	}
	was := t.h.Stop()
	select {
	case <-t.c:
	default:
	}
	return was
}
func (t *Timer) Reset(d time.Duration) bool {
	if t.rt != nil {
		return t.rt.Reset(d)
	}
	was := t.Stop()
	c := t.c
	t.h = vsched.AddTimer(d, true, func(now time.Time) {
		select {
		case c <- now:
		default:
		}
	})
	return was
}

type Ticker struct {
	C  <-chan time.Time
	c  chan time.Time
	rt *time.Ticker
	h  *vsched.TimerHandle
	d  time.Duration
}

func NewTicker(d time.Duration) *Ticker {
	if !vsched.Active() {
		rt := time.NewTicker(d)
		return &Ticker{C: rt.C, rt: rt}
	}
	c := make(chan time.Time, 1)
	t := &Ticker{C: c, c: c, d: d}
	t.arm()
	return t
}
func (t *Ticker) arm() {
	t.h = vsched.AddTimer(t.d, true, func(now time.Time) {
		select {
		case t.c <- now:
		default:
		}
		t.arm()
	})
}
func (t *Ticker) Stop() {
	if t.rt != nil {
		t.rt.Stop()
		return
	}
	t.h.Stop()
}
func (t *Ticker) Reset(d time.Duration) {
	if t.rt != nil {
		t.rt.Reset(d)
		return
	}
	t.h.Stop()
	select {
	case <-t.c:
	default:
	}
	t.d = d
	t.arm()
}

func Now() time.Time                  { return vsched.VNow() }
func Since(t time.Time) time.Duration { return vsched.VNow().Sub(t) }
func Until(t time.Time) time.Duration { return t.Sub(vsched.VNow()) }
func Sleep(d time.Duration) {
	if !vsched.Active() {
		time.Sleep(d)
		return
	}
	fired := false
	vsched.AddTimer(d, true, func(time.Time) { fired = true })
	vsched.Cond("sleep", func() bool { return fired })
}
func After(d time.Duration) <-chan time.Time {
	if !vsched.Active() {
		return time.After(d)
	}
	c := make(chan time.Time, 1)
	vsched.AddTimer(d, true, func(now time.Time) { c <- now })
	return c
}
func Tick(d time.Duration) <-chan time.Time { return NewTicker(d).C }
func AfterFunc(d time.Duration, f func()) *Timer {
	if !vsched.Active() {
		rt := time.AfterFunc(d, f)
		return &Timer{rt: rt}
	}
	panic("vtime.AfterFunc under scheduler: not implemented in prototype")
}
