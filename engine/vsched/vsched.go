// Package vsched is the cooperative scheduler of the SCHED engine (DESIGN.md section 4). Rewritten code of pfcpiface calls
// into it before every channel operation, select, close, go statement, and (through vsync / vtime / vnet) every lock, timer
// and socket operation. Exactly one managed thread runs at a time; every blocking decision is the scheduler's, so that an
// explorer can enumerate schedules by replaying a prefix of choices. With no scheduler active every function performs the
// plain operation.
package vsched

import (
	"bytes"
	"fmt"
	"reflect"
	"runtime"
	"sort"
	"strconv"
	"strings"
	"sync"
	"time"
)

type opKind int

const (
	opYield opKind = iota
	opSend
	opRecv
	opSelect
	opCond // generic: ready() predicate
	opChoose
)

type op struct {
	kind   opKind
	loc    string
	ch     reflect.Value
	val    reflect.Value
	cases  []Case
	hasDef bool
	ready  func() bool
	n      int
	// results
	done   bool // completed by partner (rendezvous)
	rv     reflect.Value
	rok    bool
	chosen int
}

type thread struct {
	env     bool // a thread of the harness (environment): the clock is never advanced past an enabled environment thread
	id      string
	resume  chan struct{}
	pending *op
	exited  bool
	nspawn  int
	panicv  interface{}
	stack   string
}

type Choice struct {
	N      int    // number of alternatives
	Taken  int    // index taken
	Costs  []int  // cost of each alternative
	Sig    string // signature for divergence check
	Labels []string
}

type Sched struct {
	mu       sync.Mutex // protects threads map only (goroutine id lookup)
	byGid    map[int64]*thread
	threads  []*thread
	ctl      chan *thread
	cur      *thread
	aborting bool
	closed   map[uintptr]bool
	// keep holds every channel recorded as closed, so that its address cannot be reused by a new channel while the
	// execution lasts (the closed set is keyed by address)
	keep   []reflect.Value
	Now    time.Time
	timers []*vtimer
	prefix []int
	// PrefixSigs, when set, are the enabled-set signatures recorded for the prefix: replay must meet the same sets
	PrefixSigs []string
	// ChargeFreeSwitch makes a non-canonical choice at a blocking point (current thread not enabled) cost one deviation
	// too (used for fan-out scenarios, where permutations of commuting workers would swamp the budget)
	ChargeFreeSwitch bool
	// MaxSlack bounds the "timer lands first" deviation: the clock is advanced past enabled threads only to a timer that
	// is at most this far away (letting a runnable thread be slower than that is not a behaviour worth exploring)
	MaxSlack time.Duration
	// NoClockDeviation: the clock advances only when no thread is enabled (computation is infinitely fast compared with
	// timers); the "timer lands first" alternative is never offered.
	NoClockDeviation bool
	// ArriveYield: a blocking operation on an unbuffered channel is preceded by a scheduling point of its own, so that
	// "about to block" and "parked" are different states (a non-blocking partner operation - select with default -
	// tells them apart: it succeeds only against a parked thread).
	ArriveYield bool
	// ReverseOrder: the canonical order among the enabled threads is "the running thread first, then the most recently
	// created" instead of "then the oldest": under the canonical schedule long-lived service threads then run last.
	ReverseOrder bool
	Diverged    string
	Trace       []Choice
	Explore     bool // when false: canonical choice everywhere, no recording
	Steps       int
	MaxSteps    int
	Panics      []string
	Deadlock    bool
	Horizon     bool
	Log         []string
	wg          sync.WaitGroup
}

type vtimer struct {
	when    time.Time
	fire    func(now time.Time) // called by scheduler on advance
	stopped bool
	waiter  bool // pseudo-timer (deadline) that only matters if someone waits
}

var S *Sched // nil => inactive (pass-through)

func gid() int64 {
	var buf [64]byte
	n := runtime.Stack(buf[:], false)
	b := buf[:n]
	b = b[len("goroutine "):]
	i := bytes.IndexByte(b, ' ')
	id, _ := strconv.ParseInt(string(b[:i]), 10, 64)
	return id
}

func me() *thread {
	s := S
	if s == nil {
		return nil
	}
	s.mu.Lock()
	t := s.byGid[gid()]
	s.mu.Unlock()
	return t
}

// Active reports whether the caller is a managed thread of an active scheduler.
func Active() bool { return me() != nil }

func New(prefix []int, maxSteps int) *Sched {
	return &Sched{byGid: map[int64]*thread{}, ctl: make(chan *thread), closed: map[uintptr]bool{}, Now: time.Date(2030, 1, 1, 0, 0, 0, 0, time.UTC), prefix: prefix, MaxSteps: maxSteps}
}

func (s *Sched) spawn(parent *thread, loc string, f func()) *thread {
	var id string
	if parent == nil {
		id = strconv.Itoa(len(s.threads))
	} else {
		id = parent.id + "." + strconv.Itoa(parent.nspawn)
		parent.nspawn++
	}
	t := &thread{id: id, resume: make(chan struct{}, 1), env: parent == nil || strings.HasPrefix(loc, "harness.")}
	t.pending = &op{kind: opYield, loc: "start@" + loc}
	s.threads = append(s.threads, t)
	s.wg.Add(1)
	started := make(chan struct{})
	go func() {
		defer s.wg.Done()
		s.mu.Lock()
		s.byGid[gid()] = t
		s.mu.Unlock()
		close(started)
		defer func() {
			if r := recover(); r != nil {
				buf := make([]byte, 8192)
				n := runtime.Stack(buf, false)
				t.panicv = r
				t.stack = string(buf[:n])
			}
			t.exited = true
			t.pending = nil
			s.mu.Lock()
			delete(s.byGid, gid())
			s.mu.Unlock()
			if !s.aborting {
				s.ctl <- t
			}
		}()
		<-t.resume
		if s.aborting {
			runtime.Goexit()
		}
		t.pending = nil
		f()
	}()
	<-started
	return t
}

// Go starts a managed thread (or a plain goroutine when inactive).
func Go(loc string, f func()) {
	t := me()
	if t == nil {
		go f()
		return
	}
	S.spawn(t, loc, f)
}

func (t *thread) park(o *op) {
	s := S
	if s.aborting {
		runtime.Goexit()
	}
	t.pending = o
	s.ctl <- t
	<-t.resume
	if s.aborting {
		runtime.Goexit()
	}
	t.pending = nil
}

func Yield(loc string) {
	if t := me(); t != nil {
		t.park(&op{kind: opYield, loc: loc})
	}
}

// Cond parks until ready() holds (evaluated by the scheduler while all threads are parked).
func Cond(loc string, ready func() bool) {
	if t := me(); t != nil {
		t.park(&op{kind: opCond, loc: loc, ready: ready})
	}
}

// Quiesce parks the caller until no other thread is enabled.
func Quiesce(loc string) {
	t := me()
	if t == nil {
		return
	}
	s := S
	t.park(&op{kind: opCond, loc: loc, ready: func() bool {
		for _, o := range s.threads {
			if o != t && !o.exited && o.pending != nil && s.enabled(o) {
				return false
			}
		}
		return true
	}})
}

// Choose is an explicit environment choice among n alternatives (alternative 0 is the default).
func Choose(loc string, n int) int {
	t := me()
	if t == nil {
		return 0
	}
	o := &op{kind: opChoose, loc: loc, n: n}
	t.park(o)
	return o.chosen
}

func chptr(v reflect.Value) uintptr { return v.Pointer() }

func (s *Sched) parkedOn(ch reflect.Value, send bool, except *thread) *thread {
	p := chptr(ch)
	for _, t := range s.threads {
		if t == except || t.pending == nil || t.pending.done {
			continue
		}
		o := t.pending
		switch o.kind {
		case opSend:
			if send && chptr(o.ch) == p {
				return t
			}
		case opRecv:
			if !send && chptr(o.ch) == p {
				return t
			}
		case opSelect:
			for _, c := range o.cases {
				if c.isSend() == send && chptr(c.chanv()) == p {
					return t
				}
			}
		}
	}
	return nil
}

func (s *Sched) isClosed(ch reflect.Value, me *thread) bool {
	p := chptr(ch)
	if s.closed[p] {
		return true
	}
	if ch.Type().ChanDir()&reflect.RecvDir == 0 {
		return false
	}
	if ch.Len() == 0 && s.parkedOn(ch, true, me) == nil {
		// idempotent probe: with an empty buffer and no parked sender it can only succeed if closed
		x, ok := ch.TryRecv()
		if x.IsValid() {
			if ok {
				panic("vsched: probe consumed a value from an unmanaged sender")
			}
			s.closed[p] = true
			s.keep = append(s.keep, ch)
			return true
		}
	}
	return false
}

func (s *Sched) recvReady(ch reflect.Value, t *thread) bool {
	if ch.Len() > 0 {
		return true
	}
	if ch.Cap() == 0 && s.parkedOn(ch, true, t) != nil {
		return true
	}
	return s.isClosed(ch, t)
}
func (s *Sched) sendReady(ch reflect.Value, t *thread) bool {
	if s.closed[chptr(ch)] {
		return true // will panic: that is the behaviour
	}
	if ch.Cap() > 0 {
		return ch.Len() < ch.Cap()
	}
	return s.parkedOn(ch, false, t) != nil
}

func (s *Sched) readyCases(o *op, t *thread) []int {
	var r []int
	for i, c := range o.cases {
		if c.isSend() {
			if s.sendReady(c.chanv(), t) {
				r = append(r, i)
			}
		} else if s.recvReady(c.chanv(), t) {
			r = append(r, i)
		}
	}
	return r
}

func (s *Sched) enabled(t *thread) bool {
	o := t.pending
	if o == nil {
		return false
	}
	if o.done {
		return true
	}
	switch o.kind {
	case opYield, opChoose:
		return true
	case opCond:
		return o.ready()
	case opSend:
		return s.sendReady(o.ch, t)
	case opRecv:
		return s.recvReady(o.ch, t)
	case opSelect:
		return o.hasDef || len(s.readyCases(o, t)) > 0
	}
	return false
}

// decide records/replays one choice among n alternatives with given costs.
func (s *Sched) decide(n int, costs []int, sig string) int {
	if !s.Explore || n == 1 {
		if s.Explore {
			// still record trivial points? no.
		}
		return 0
	}
	k := len(s.Trace)
	taken := 0
	if k < len(s.prefix) {
		taken = s.prefix[k]
		if taken >= n {
			s.Diverged = fmt.Sprintf("replay divergence at choice %d: want alt %d of %d (%s)", k, taken, n, sig)
			taken = 0
		}
		if k < len(s.PrefixSigs) && s.PrefixSigs[k] != sig && s.Diverged == "" {
			s.Diverged = fmt.Sprintf("replay divergence at choice %d: enabled set %q, recorded %q", k, sig, s.PrefixSigs[k])
		}
	}
	s.Trace = append(s.Trace, Choice{N: n, Taken: taken, Costs: costs, Sig: sig})
	return taken
}

func (s *Sched) logf(f string, a ...interface{}) {
	if len(s.Log) < 4000 {
		s.Log = append(s.Log, fmt.Sprintf(f, a...))
	}
}

// Run drives the execution until main exits, deadlock, or horizon. main is thread "0".
func (s *Sched) Run(main func()) {
	S = s
	mainT := s.spawn(nil, "main", main)
	s.cur = nil
	for {
		if mainT.exited {
			break
		}
		if s.Steps >= s.MaxSteps {
			s.Horizon = true
			break
		}
		var en []*thread
		for _, t := range s.threads {
			if !t.exited && s.enabled(t) {
				en = append(en, t)
			}
		}
		canAdvance := s.nextTimer() != nil
		if len(en) == 0 {
			if canAdvance {
				s.advance()
				continue
			}
			s.Deadlock = true
			break
		}
		// canonical order: current first, then ascending creation order
		if s.ReverseOrder {
			for i, j := 0, len(en)-1; i < j; i, j = i+1, j-1 {
				en[i], en[j] = en[j], en[i]
			}
		}
		sort.SliceStable(en, func(i, j int) bool { return en[i] == s.cur && en[j] != s.cur })
		n := len(en)
		costs := make([]int, 0, n+1)
		sig := ""
		curEnabled := en[0] == s.cur
		for i, t := range en {
			c := 0
			if i > 0 && (curEnabled || s.ChargeFreeSwitch) {
				c = 1
			}
			costs = append(costs, c)
			sig += t.id + "@" + t.pending.loc + ";"
		}
		envEnabled := false
		for _, t := range en {
			if t.env {
				envEnabled = true
			}
		}
		if canAdvance && !s.NoClockDeviation && !envEnabled && s.timerHasWaiter() && (s.MaxSlack == 0 || s.nextTimer().when.Sub(s.Now) <= s.MaxSlack) {
			costs = append(costs, 1)
			sig += "advance;"
			n++
		}
		k := s.decide(n, costs, sig)
		if k == len(en) {
			s.advance()
			continue
		}
		s.step(en[k])
	}
	// abort everything that is still parked
	s.aborting = true
	for _, t := range s.threads {
		if !t.exited {
			select {
			case t.resume <- struct{}{}:
			default:
			}
		}
	}
	done := make(chan struct{})
	go func() { s.wg.Wait(); close(done) }()
	for {
		select {
		case <-done:
			S = nil
			for _, t := range s.threads {
				if t.panicv != nil {
					s.Panics = append(s.Panics, fmt.Sprintf("thread %s: %v\n%s", t.id, t.panicv, t.stack))
				}
			}
			return
		case <-s.ctl:
		case <-time.After(5 * time.Second):
			// threads stuck outside the scheduler; try resuming again
			for _, t := range s.threads {
				if !t.exited {
					select {
					case t.resume <- struct{}{}:
					default:
					}
				}
			}
		}
	}
}

func (s *Sched) step(t *thread) {
	s.Steps++
	o := t.pending
	// resolve the operation so that it cannot block when the thread resumes
	if !o.done {
		switch o.kind {
		case opChoose:
			costs := make([]int, o.n)
			for i := 1; i < o.n; i++ {
				costs[i] = 1
			}
			o.chosen = s.decide(o.n, costs, "choose@"+o.loc)
		case opSend:
			if !s.closed[chptr(o.ch)] && o.ch.Cap() == 0 {
				r := s.parkedOn(o.ch, false, t)
				s.deliver(r, o.ch, o.val)
				o.done = true
			}
		case opRecv:
			if o.ch.Len() == 0 && o.ch.Cap() == 0 && !s.closed[chptr(o.ch)] {
				if snd := s.parkedOn(o.ch, true, t); snd != nil {
					o.rv, o.rok = s.take(snd, o.ch), true
					o.done = true
				}
			}
		case opSelect:
			rc := s.readyCases(o, t)
			if len(rc) == 0 {
				o.chosen = -1
			} else {
				costs := make([]int, len(rc))
				for i := 1; i < len(rc); i++ {
					costs[i] = 1
				}
				k := s.decide(len(rc), costs, fmt.Sprintf("select@%s%v", o.loc, rc))
				o.chosen = rc[k]
				c := o.cases[o.chosen]
				ch := c.chanv()
				if ch.Cap() == 0 && !s.closed[chptr(ch)] {
					if c.isSend() {
						r := s.parkedOn(ch, false, t)
						s.deliver(r, ch, c.sendv())
						o.done = true
					} else if ch.Len() == 0 {
						if snd := s.parkedOn(ch, true, t); snd != nil {
							c.set(s.take(snd, ch), true)
							o.done = true
						}
					}
				}
			}
		}
	}
	s.logf("%s %s", t.id, o.loc)
	s.cur = t
	t.resume <- struct{}{}
	<-s.ctl // the thread parked again or exited (or a child... children park silently: they do not notify)
	if t.exited && t.panicv != nil {
		// a panic ends the execution (the real process would die)
		s.MaxSteps = s.Steps
	}
}

// deliver hands v to receiver r parked on ch (rendezvous).
func (s *Sched) deliver(r *thread, ch reflect.Value, v reflect.Value) {
	o := r.pending
	switch o.kind {
	case opRecv:
		o.rv, o.rok, o.done = v, true, true
	case opSelect:
		for i, c := range o.cases {
			if !c.isSend() && chptr(c.chanv()) == chptr(ch) {
				c.set(v, true)
				o.chosen = i
				o.done = true
				return
			}
		}
	}
}

// take obtains the value of sender snd parked on ch and completes its operation.
func (s *Sched) take(snd *thread, ch reflect.Value) reflect.Value {
	o := snd.pending
	switch o.kind {
	case opSend:
		o.done = true
		return o.val
	case opSelect:
		for i, c := range o.cases {
			if c.isSend() && chptr(c.chanv()) == chptr(ch) {
				o.chosen = i
				o.done = true
				return c.sendv()
			}
		}
	}
	panic("vsched: take")
}

// ---- channel operations (rewritten code calls these) ----

func Send[T any](loc string, ch chan<- T) func(T) {
	return func(v T) {
		t := me()
		if t == nil {
			ch <- v
			return
		}
		if S.ArriveYield && S.Explore && cap(ch) == 0 {
			t.park(&op{kind: opYield, loc: loc + "^"})
		}
		o := &op{kind: opSend, loc: loc, ch: reflect.ValueOf(ch), val: reflect.ValueOf(&v).Elem()}
		t.park(o)
		if o.done {
			return
		}
		ch <- v // ready by construction (or panics on closed channel, as the real code would)
	}
}

func Recv[T any](loc string, ch <-chan T) T { v, _ := Recv2(loc, ch); return v }

func Recv2[T any](loc string, ch <-chan T) (T, bool) {
	t := me()
	if t == nil {
		v, ok := <-ch
		return v, ok
	}
	if S.ArriveYield && S.Explore && cap(ch) == 0 {
		t.park(&op{kind: opYield, loc: loc + "^"})
	}
	o := &op{kind: opRecv, loc: loc, ch: reflect.ValueOf(ch)}
	t.park(o)
	if o.done {
		var v T
		reflect.ValueOf(&v).Elem().Set(o.rv)
		return v, o.rok
	}
	v, ok := <-ch
	return v, ok
}

func Close[T any](loc string, ch chan<- T) {
	if t := me(); t != nil {
		t.park(&op{kind: opYield, loc: loc})
		S.closed[chptr(reflect.ValueOf(ch))] = true // a double close panics in close() below, as in the real code
		S.keep = append(S.keep, reflect.ValueOf(ch))
	}
	close(ch)
}

func Len(ch any) int { Yield("len"); return reflect.ValueOf(ch).Len() }
func Cap(ch any) int { return reflect.ValueOf(ch).Cap() }

type Case interface {
	isSend() bool
	chanv() reflect.Value
	sendv() reflect.Value
	set(v reflect.Value, ok bool)
	sc() reflect.SelectCase
}
type RCase[T any] struct {
	ch <-chan T
	v  T
	ok bool
}

func (c *RCase[T]) isSend() bool         { return false }
func (c *RCase[T]) chanv() reflect.Value { return reflect.ValueOf(c.ch) }
func (c *RCase[T]) sendv() reflect.Value { return reflect.Value{} }
func (c *RCase[T]) sc() reflect.SelectCase {
	return reflect.SelectCase{Dir: reflect.SelectRecv, Chan: reflect.ValueOf(c.ch)}
}
func (c *RCase[T]) set(v reflect.Value, ok bool) {
	if ok {
		reflect.ValueOf(&c.v).Elem().Set(v)
	}
	c.ok = ok
}
func (c *RCase[T]) Val() T                  { return c.v }
func (c *RCase[T]) Val2() (T, bool)         { return c.v, c.ok }
func RecvCase[T any](ch <-chan T) *RCase[T] { return &RCase[T]{ch: ch} }

type SCase[T any] struct {
	ch chan<- T
	v  T
}

func (c *SCase[T]) isSend() bool         { return true }
func (c *SCase[T]) chanv() reflect.Value { return reflect.ValueOf(c.ch) }
func (c *SCase[T]) sendv() reflect.Value { return reflect.ValueOf(&c.v).Elem() }
func (c *SCase[T]) sc() reflect.SelectCase {
	return reflect.SelectCase{Dir: reflect.SelectSend, Chan: reflect.ValueOf(c.ch), Send: reflect.ValueOf(&c.v).Elem()}
}
func (c *SCase[T]) set(v reflect.Value, ok bool) {}
func (c *SCase[T]) With(v T) *SCase[T]           { c.v = v; return c }
func SendCase[T any](ch chan<- T) *SCase[T]      { return &SCase[T]{ch: ch} }

func Select(loc string, hasDefault bool, cases ...Case) int {
	t := me()
	if t == nil {
		scs := make([]reflect.SelectCase, 0, len(cases)+1)
		for _, c := range cases {
			scs = append(scs, c.sc())
		}
		if hasDefault {
			scs = append(scs, reflect.SelectCase{Dir: reflect.SelectDefault})
		}
		i, v, ok := reflect.Select(scs)
		if i == len(cases) {
			return -1
		}
		cases[i].set(v, ok)
		return i
	}
	if S.ArriveYield && S.Explore && !hasDefault {
		for _, c := range cases {
			if c.chanv().IsValid() && !c.chanv().IsNil() && c.chanv().Cap() == 0 {
				t.park(&op{kind: opYield, loc: loc + "^"})
				break
			}
		}
	}
	o := &op{kind: opSelect, loc: loc, cases: cases, hasDef: hasDefault}
	t.park(o)
	if o.chosen < 0 || o.done {
		return o.chosen
	}
	c := cases[o.chosen]
	if c.isSend() {
		c.chanv().Send(c.sendv()) // ready by construction / panics if closed
	} else {
		v, ok := c.chanv().Recv()
		c.set(v, ok)
	}
	return o.chosen
}

// ---- virtual time (used by vtime / vnet) ----

// VNow is the virtual clock while a scheduler is active (also for readiness predicates evaluated by the scheduler itself).
func VNow() time.Time {
	if s := S; s != nil {
		return s.Now
	}
	return time.Now()
}

type TimerHandle struct{ t *vtimer }

func (h *TimerHandle) Stop() bool {
	was := !h.t.stopped
	h.t.stopped = true
	return was
}

// AddTimer registers a virtual timer; fire runs in scheduler context (must not block).
func AddTimer(d time.Duration, waiter bool, fire func(now time.Time)) *TimerHandle {
	s := S
	vt := &vtimer{when: s.Now.Add(d), fire: fire, waiter: waiter}
	s.timers = append(s.timers, vt)
	return &TimerHandle{vt}
}
func AddDeadline(when time.Time) *TimerHandle {
	s := S
	vt := &vtimer{when: when, fire: func(time.Time) {}, waiter: true}
	s.timers = append(s.timers, vt)
	return &TimerHandle{vt}
}

func (s *Sched) nextTimer() *vtimer {
	var best *vtimer
	live := s.timers[:0]
	for _, t := range s.timers {
		if t.stopped {
			continue
		}
		live = append(live, t)
		if best == nil || t.when.Before(best.when) {
			best = t
		}
	}
	s.timers = live
	return best
}
func (s *Sched) timerHasWaiter() bool { return true }

func (s *Sched) advance() {
	t := s.nextTimer()
	if t == nil {
		return
	}
	s.Steps++
	if t.when.After(s.Now) {
		s.Now = t.when
	}
	t.stopped = true
	s.logf("advance -> %v", s.Now.Sub(time.Date(2030, 1, 1, 0, 0, 0, 0, time.UTC)))
	t.fire(s.Now)
	s.cur = nil
}
