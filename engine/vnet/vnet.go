package vnet

import (
	"net"
	"os"
	"syscall"
	"time"

	reuse "github.com/libp2p/go-reuseport"
	"github.com/omec-project/upf-epc/pfcpiface/internal/verif/vsched"
)

type dgram struct {
	from *net.UDPAddr
	b    []byte
}

type sock struct {
	local, remote *net.UDPAddr // remote nil => listening socket
	q             []dgram
	icmpErrs      int // pending ECONNREFUSED reports (connected socket only)
	closed        bool
	deadline      time.Time
	dh            *vsched.TimerHandle
	Sent          []Sent
}
type Sent struct {
	To string
	B  []byte
	At time.Time
}

// Fabric is the in-memory UDP network of one execution.
type Fabric struct {
	socks []*sock
	Wire  []Sent           // everything the agent wrote, in order
	Peers map[string]*Peer // by address string
	Unix  map[string]*UnixSock
	// Hosts: the name service of the execution (host name -> IPv4 literal). A name that is not listed does not resolve.
	Hosts map[string]string
}

// resolve is net.ResolveUDPAddr over the fabric's name service: IP literals as usual, listed host names by table.
func resolve(addr string) (*net.UDPAddr, error) {
	if host, port, err := net.SplitHostPort(addr); err == nil && net.ParseIP(host) == nil && host != "" {
		ip, ok := "", false
		if F != nil {
			ip, ok = F.Hosts[host]
		}
		if !ok {
			return nil, &net.DNSError{Err: "no such host", Name: host, IsNotFound: true}
		}
		addr = net.JoinHostPort(ip, port)
	}
	return net.ResolveUDPAddr("udp", addr)
}

var F *Fabric

func NewFabric() *Fabric {
	F = &Fabric{Peers: map[string]*Peer{}, Unix: map[string]*UnixSock{}, Hosts: map[string]string{}}
	return F
}

type Peer struct {
	Addr  *net.UDPAddr
	Inbox [][]byte
	// PortClosed: the peer's UDP port is closed. A datagram written to it is answered by ICMP "port unreachable", which
	// Linux reports on the CONNECTED socket as ECONNREFUSED on the next read (once per datagram sent).
	PortClosed bool
}

func (f *Fabric) Peer(addr string) *Peer {
	a, _ := net.ResolveUDPAddr("udp", addr)
	p := &Peer{Addr: a}
	f.Peers[a.String()] = p
	return p
}

// Send injects a datagram from peer p to dst (agent side) following Linux's lookup rule.
func (p *Peer) Send(dst string, b []byte) {
	d, _ := net.ResolveUDPAddr("udp", dst)
	var lis *sock
	for _, s := range F.socks {
		if s.closed || s.local.String() != d.String() {
			continue
		}
		if s.remote != nil && s.remote.String() == p.Addr.String() {
			s.q = append(s.q, dgram{p.Addr, append([]byte{}, b...)})
			return
		}
		if s.remote == nil {
			lis = s
		}
	}
	if lis != nil {
		lis.q = append(lis.q, dgram{p.Addr, append([]byte{}, b...)})
	}
}

type timeoutErr struct{}

func (timeoutErr) Error() string   { return "i/o timeout" }
func (timeoutErr) Timeout() bool   { return true }
func (timeoutErr) Temporary() bool { return true }

func (s *sock) wait() error {
	vsched.Cond("net.read", func() bool {
		return len(s.q) > 0 || s.closed || s.icmpErrs > 0 || (!s.deadline.IsZero() && !vsched.VNow().Before(s.deadline))
	})
	if s.closed {
		return net.ErrClosed
	}
	if s.icmpErrs > 0 {
		s.icmpErrs--
		return &net.OpError{Op: "read", Net: "udp", Err: os.NewSyscallError("read", syscall.ECONNREFUSED)}
	}
	if len(s.q) == 0 {
		return &net.OpError{Op: "read", Net: "udp", Err: os.ErrDeadlineExceeded}
	}
	return nil
}

func (s *sock) Read(b []byte) (int, error) {
	if err := s.wait(); err != nil {
		return 0, err
	}
	d := s.q[0]
	s.q = s.q[1:]
	return copy(b, d.b), nil
}
func (s *sock) ReadFrom(b []byte) (int, net.Addr, error) {
	if err := s.wait(); err != nil {
		return 0, nil, err
	}
	d := s.q[0]
	s.q = s.q[1:]
	return copy(b, d.b), d.from, nil
}
func (s *sock) Write(b []byte) (int, error) {
	vsched.Yield("net.write")
	if s.closed {
		return 0, net.ErrClosed
	}
	snt := Sent{To: s.remote.String(), B: append([]byte{}, b...), At: vsched.VNow()}
	F.Wire = append(F.Wire, snt)
	if p := F.Peers[s.remote.String()]; p != nil {
		if p.PortClosed {
			s.icmpErrs++
			return len(b), nil
		}
		p.Inbox = append(p.Inbox, snt.B)
	}
	return len(b), nil
}
func (s *sock) WriteTo(b []byte, a net.Addr) (int, error) { return len(b), nil }
func (s *sock) Close() error {
	vsched.Yield("net.close")
	if s.closed {
		return net.ErrClosed
	}
	s.closed = true
	return nil
}
func (s *sock) LocalAddr() net.Addr { return s.local }
func (s *sock) RemoteAddr() net.Addr {
	if s.remote == nil {
		return nil
	}
	return s.remote
}
func (s *sock) SetDeadline(t time.Time) error { return s.SetReadDeadline(t) }
func (s *sock) SetReadDeadline(t time.Time) error {
	if s.dh != nil {
		s.dh.Stop()
	}
	s.deadline = t
	if !t.IsZero() {
		s.dh = vsched.AddDeadline(t)
	}
	return nil
}
func (s *sock) SetWriteDeadline(t time.Time) error { return nil }

func ReuseDial(network, laddr, raddr string) (net.Conn, error) {
	if !vsched.Active() {
		return reuse.Dial(network, laddr, raddr)
	}
	l, _ := net.ResolveUDPAddr("udp", laddr)
	r, err := resolve(raddr)
	if err != nil {
		return nil, &net.OpError{Op: "dial", Net: network, Err: err}
	}
	s := &sock{local: l, remote: r}
	F.socks = append(F.socks, s)
	return s, nil
}
func ReuseListenPacket(network, addr string) (net.PacketConn, error) {
	if !vsched.Active() {
		return reuse.ListenPacket(network, addr)
	}
	l, _ := net.ResolveUDPAddr("udp", addr)
	s := &sock{local: l}
	F.socks = append(F.socks, s)
	return s, nil
}

// UnixSock is an in-memory unixpacket endpoint the harness registers (BESS notify / end-marker sockets).
type UnixSock struct {
	In     [][]byte // datagrams the agent will read
	Out    [][]byte // datagrams the agent wrote
	closed bool
}

func (u *UnixSock) Read(b []byte) (int, error) {
	vsched.Cond("unix.read", func() bool { return len(u.In) > 0 || u.closed })
	if len(u.In) == 0 {
		return 0, net.ErrClosed
	}
	d := u.In[0]
	u.In = u.In[1:]
	return copy(b, d), nil
}
func (u *UnixSock) Write(b []byte) (int, error) {
	vsched.Yield("unix.write")
	u.Out = append(u.Out, append([]byte{}, b...))
	return len(b), nil
}
func (u *UnixSock) Close() error                       { u.closed = true; return nil }
func (u *UnixSock) LocalAddr() net.Addr                { return &net.UnixAddr{Net: "unixpacket"} }
func (u *UnixSock) RemoteAddr() net.Addr               { return &net.UnixAddr{Net: "unixpacket"} }
func (u *UnixSock) SetDeadline(t time.Time) error      { return nil }
func (u *UnixSock) SetReadDeadline(t time.Time) error  { return nil }
func (u *UnixSock) SetWriteDeadline(t time.Time) error { return nil }

func Dial(network, addr string) (net.Conn, error) {
	if !vsched.Active() {
		return net.Dial(network, addr)
	}
	if network == "unixpacket" || network == "unix" {
		if F != nil && F.Unix[addr] != nil {
			return F.Unix[addr], nil
		}
		return nil, &net.OpError{Op: "dial", Net: network, Err: os.ErrNotExist}
	}
	r, err := resolve(addr)
	if err != nil {
		return nil, &net.OpError{Op: "dial", Net: network, Err: err}
	}
	return &sock{local: &net.UDPAddr{IP: net.ParseIP("127.0.0.1"), Port: 1}, remote: r}, nil
}
