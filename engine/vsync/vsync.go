package vsync

import (
	"fmt"
	"sort"
	"sync"

	"github.com/omec-project/upf-epc/pfcpiface/internal/verif/vsched"
)

type Mutex struct {
	real   sync.Mutex
	locked bool
}

func (m *Mutex) Lock() {
	if !vsched.Active() {
		m.real.Lock()
		return
	}
	vsched.Cond("mutex.Lock", func() bool { return !m.locked })
	m.locked = true
}
func (m *Mutex) Unlock() {
	if !vsched.Active() {
		m.real.Unlock()
		return
	}
	if !m.locked {
		panic("sync: unlock of unlocked mutex")
	}
	m.locked = false
}
func (m *Mutex) TryLock() bool {
	if !vsched.Active() {
		return m.real.TryLock()
	}
	if m.locked {
		return false
	}
	m.locked = true
	return true
}

type RWMutex struct {
	real    sync.RWMutex
	w       bool
	readers int
}

func (m *RWMutex) Lock() {
	if !vsched.Active() {
		m.real.Lock()
		return
	}
	vsched.Cond("rw.Lock", func() bool { return !m.w && m.readers == 0 })
	m.w = true
}
func (m *RWMutex) Unlock() {
	if !vsched.Active() {
		m.real.Unlock()
		return
	}
	m.w = false
}
func (m *RWMutex) RLock() {
	if !vsched.Active() {
		m.real.RLock()
		return
	}
	vsched.Cond("rw.RLock", func() bool { return !m.w })
	m.readers++
}
func (m *RWMutex) RUnlock() {
	if !vsched.Active() {
		m.real.RUnlock()
		return
	}
	m.readers--
}

// Once: Do is a scheduling point; a second caller waits (parked) until the first returned.
type Once struct {
	real    sync.Once
	done    bool
	running bool
}

func (o *Once) Do(f func()) {
	if !vsched.Active() {
		o.real.Do(func() { f(); o.done = true })
		return
	}
	vsched.Cond("once.Do", func() bool { return !o.running })
	if o.done {
		return
	}
	o.running = true
	defer func() { o.running, o.done = false, true }()
	f()
}

// WaitGroup: Wait parks until the counter is zero.
type WaitGroup struct {
	real sync.WaitGroup
	n    int
}

func (w *WaitGroup) Add(d int) {
	if !vsched.Active() {
		w.real.Add(d)
		return
	}
	w.n += d
}
func (w *WaitGroup) Done() { w.Add(-1) }
func (w *WaitGroup) Wait() {
	if !vsched.Active() {
		w.real.Wait()
		return
	}
	vsched.Cond("wg.Wait", func() bool { return w.n <= 0 })
}

type Map struct{ m sync.Map }

func (m *Map) Load(k any) (any, bool) { vsched.Yield("map.Load"); return m.m.Load(k) }
func (m *Map) Store(k, v any)         { vsched.Yield("map.Store"); m.m.Store(k, v) }
func (m *Map) Delete(k any)           { vsched.Yield("map.Delete"); m.m.Delete(k) }

// Range: Go ranges over a sync.Map in no particular order. Under the scheduler the order is owned: entries are sorted by
// their printed key and the starting point of the (cyclic) order is an explorer choice, so that every entry can come first.
func (m *Map) Range(f func(k, v any) bool) {
	if !vsched.Active() {
		m.m.Range(f)
		return
	}
	vsched.Yield("map.Range")
	type kv struct {
		k, v any
		s    string
	}
	var all []kv
	m.m.Range(func(k, v any) bool { all = append(all, kv{k, v, fmt.Sprint(k)}); return true })
	sort.Slice(all, func(i, j int) bool { return all[i].s < all[j].s })
	start := 0
	if len(all) > 1 {
		start = vsched.Choose("map.Range.order", len(all))
	}
	for i := range all {
		e := all[(start+i)%len(all)]
		if !f(e.k, e.v) {
			return
		}
	}
}
func (m *Map) LoadOrStore(k, v any) (any, bool) {
	vsched.Yield("map.LoadOrStore")
	return m.m.LoadOrStore(k, v)
}
func (m *Map) LoadAndDelete(k any) (any, bool) {
	vsched.Yield("map.LoadAndDelete")
	return m.m.LoadAndDelete(k)
}
