package main

import (
	"bytes"
	"encoding/json"
	"fmt"
	"go/ast"
	"go/printer"
	"go/token"
	"go/types"
	"os"
	"path/filepath"
	"strconv"

	"golang.org/x/tools/go/ast/astutil"
	"golang.org/x/tools/go/packages"
)

const base = "github.com/omec-project/upf-epc/pfcpiface/internal/verif/"

var redirect = map[string]map[string]string{ // import path -> selector -> shim pkg
	"sync":                           {"Mutex": "vsync", "RWMutex": "vsync", "Once": "vsync", "WaitGroup": "vsync", "Map": "vsync"},
	"time":                           {"Now": "vtime", "Since": "vtime", "Until": "vtime", "Sleep": "vtime", "After": "vtime", "AfterFunc": "vtime", "NewTimer": "vtime", "NewTicker": "vtime", "Tick": "vtime"},
	"github.com/libp2p/go-reuseport": {"Dial": "vnet", "ListenPacket": "vnet"},
	"net":                            {"Dial": "vnet"},
}
var rename = map[string]string{"github.com/libp2p/go-reuseport.Dial": "ReuseDial", "github.com/libp2p/go-reuseport.ListenPacket": "ReuseListenPacket"}

// usage: vinstr <repo> <outdir> <enginedir>
// Rewrites every non-test file of <repo>/pfcpiface (rules of DESIGN.md section 4.1) into <outdir> and writes
// <outdir>/overlay.json, which maps the originals to the rewritten copies and adds the run-time packages of <enginedir>
// as pfcpiface/internal/verif/{vsched,vsync,vtime,vnet}. Exit 2 on anything it does not understand.
func main() {
	if len(os.Args) != 4 {
		fmt.Println("usage: vinstr <repo> <outdir> <enginedir>")
		os.Exit(2)
	}
	repo, out, engine := os.Args[1], os.Args[2], os.Args[3]
	cfg := &packages.Config{Mode: packages.NeedName | packages.NeedFiles | packages.NeedSyntax | packages.NeedTypes | packages.NeedTypesInfo | packages.NeedImports | packages.NeedDeps, Dir: repo,
		Env: append(os.Environ(), "GOFLAGS=-mod=mod", "GOPROXY=off")}
	pkgs, err := packages.Load(cfg, "./pfcpiface")
	if err != nil || len(pkgs) != 1 || len(pkgs[0].Errors) > 0 {
		fmt.Println("vinstr: cannot load ./pfcpiface:", err)
		if len(pkgs) > 0 {
			fmt.Println(pkgs[0].Errors)
		}
		os.Exit(2)
	}
	p := pkgs[0]
	overlay := map[string]string{}
	stats := map[string]int{}
	for _, f := range p.Syntax {
		name := p.Fset.Position(f.Package).Filename
		f.Comments = nil // the printer would float comments into generated statements
		r := &rw{p: p, f: f, stats: stats, used: map[string]bool{}}
		r.file()
		for s := range r.used {
			astutil.AddImport(p.Fset, f, base+s)
		}
		for path := range redirect {
			if !astutil.UsesImport(f, path) {
				for _, is := range f.Imports {
					if v, _ := strconv.Unquote(is.Path.Value); v == path {
						if is.Name != nil {
							astutil.DeleteNamedImport(p.Fset, f, is.Name.Name, path)
						} else {
							astutil.DeleteImport(p.Fset, f, path)
						}
					}
				}
			}
		}
		var buf bytes.Buffer
		if err := printer.Fprint(&buf, p.Fset, f); err != nil {
			fmt.Println("vinstr: print", name, err)
			os.Exit(2)
		}
		dst := filepath.Join(out, filepath.Base(name))
		if err := os.WriteFile(dst, buf.Bytes(), 0o644); err != nil {
			fmt.Println("vinstr:", err)
			os.Exit(2)
		}
		overlay[name] = dst
	}
	for _, pkg := range []string{"vsched", "vsync", "vtime", "vnet"} {
		files, _ := filepath.Glob(filepath.Join(engine, pkg, "*.go"))
		if len(files) == 0 {
			fmt.Println("vinstr: engine package missing:", pkg)
			os.Exit(2)
		}
		for _, f := range files {
			overlay[filepath.Join(repo, "pfcpiface", "internal", "verif", pkg, filepath.Base(f))] = f
		}
	}
	b, _ := json.MarshalIndent(map[string]any{"Replace": overlay}, "", " ")
	os.WriteFile(filepath.Join(out, "overlay.json"), b, 0o644)
	sb, _ := json.Marshal(stats)
	os.WriteFile(filepath.Join(out, "stats.json"), sb, 0o644)
	fmt.Println(string(sb))
}

type rw struct {
	p     *packages.Package
	f     *ast.File
	stats map[string]int
	used  map[string]bool
	n     int
}

func (r *rw) loc(pos token.Pos) ast.Expr {
	ps := r.p.Fset.Position(pos)
	return &ast.BasicLit{Kind: token.STRING, Value: strconv.Quote(fmt.Sprintf("%s:%d", filepath.Base(ps.Filename), ps.Line))}
}
func (r *rw) isChan(e ast.Expr) bool {
	t := r.p.TypesInfo.TypeOf(e)
	if t == nil {
		return false
	}
	_, ok := t.Underlying().(*types.Chan)
	return ok
}
func (r *rw) call(pkg, fn string, args ...ast.Expr) *ast.CallExpr {
	r.used[pkg] = true
	return &ast.CallExpr{Fun: &ast.SelectorExpr{X: ast.NewIdent(pkg), Sel: ast.NewIdent(fn)}, Args: args}
}
func (r *rw) tmp() string { r.n++; return fmt.Sprintf("_v%d", r.n) }

func isRecv(e ast.Expr) (*ast.UnaryExpr, bool) {
	for {
		if pe, ok := e.(*ast.ParenExpr); ok {
			e = pe.X
		} else {
			break
		}
	}
	u, ok := e.(*ast.UnaryExpr)
	return u, ok && u.Op == token.ARROW
}

func (r *rw) file() {
	astutil.Apply(r.f, nil, func(c *astutil.Cursor) bool { // post-order so inner nodes are rewritten first
		switch n := c.Node().(type) {
		case *ast.SelectorExpr:
			if id, ok := n.X.(*ast.Ident); ok {
				if pn, ok := r.p.TypesInfo.Uses[id].(*types.PkgName); ok {
					path := pn.Imported().Path()
					if m, ok := redirect[path]; ok {
						if shim, ok := m[n.Sel.Name]; ok {
							r.stats["sel:"+path+"."+n.Sel.Name]++
							r.used[shim] = true
							sel := n.Sel.Name
							if rn, ok := rename[path+"."+sel]; ok {
								sel = rn
							}
							c.Replace(&ast.SelectorExpr{X: ast.NewIdent(shim), Sel: ast.NewIdent(sel)})
						}
					}
				}
			}
		case *ast.GoStmt:
			r.stats["go"]++
			var stmts []ast.Stmt
			fv := r.tmp()
			stmts = append(stmts, &ast.AssignStmt{Lhs: []ast.Expr{ast.NewIdent(fv)}, Tok: token.DEFINE, Rhs: []ast.Expr{n.Call.Fun}})
			var args []ast.Expr
			for _, a := range n.Call.Args {
				av := r.tmp()
				stmts = append(stmts, &ast.AssignStmt{Lhs: []ast.Expr{ast.NewIdent(av)}, Tok: token.DEFINE, Rhs: []ast.Expr{a}})
				args = append(args, ast.NewIdent(av))
			}
			inner := &ast.CallExpr{Fun: ast.NewIdent(fv), Args: args, Ellipsis: n.Call.Ellipsis}
			lit := &ast.FuncLit{Type: &ast.FuncType{Params: &ast.FieldList{}}, Body: &ast.BlockStmt{List: []ast.Stmt{&ast.ExprStmt{X: inner}}}}
			stmts = append(stmts, &ast.ExprStmt{X: r.call("vsched", "Go", r.loc(n.Pos()), lit)})
			c.Replace(&ast.BlockStmt{List: stmts})
		case *ast.SendStmt:
			if _, inSel := c.Parent().(*ast.CommClause); inSel {
				return true
			}
			r.stats["send"]++
			c.Replace(&ast.ExprStmt{X: &ast.CallExpr{Fun: r.call("vsched", "Send", r.loc(n.Pos()), n.Chan), Args: []ast.Expr{n.Value}}})
		case *ast.AssignStmt:
			if _, inSel := c.Parent().(*ast.CommClause); inSel {
				return true
			}
			if len(n.Rhs) == 1 {
				if u, ok := isRecv(n.Rhs[0]); ok {
					r.stats["recv"]++
					fn := "Recv"
					if len(n.Lhs) == 2 {
						fn = "Recv2"
					}
					n.Rhs[0] = r.call("vsched", fn, r.loc(u.Pos()), u.X)
				}
			}
		case *ast.ExprStmt:
			if _, inSel := c.Parent().(*ast.CommClause); inSel {
				return true
			}
			if u, ok := isRecv(n.X); ok {
				r.stats["recv"]++
				n.X = r.call("vsched", "Recv", r.loc(u.Pos()), u.X)
			}
		case *ast.UnaryExpr:
			// receives nested in other expressions (not direct stmt forms, not select comm)
			if n.Op == token.ARROW {
				switch par := c.Parent().(type) {
				case *ast.ExprStmt, *ast.AssignStmt:
					_ = par
				default:
					r.stats["recv-nested"]++
					c.Replace(r.call("vsched", "Recv", r.loc(n.Pos()), n.X))
				}
			}
		case *ast.CallExpr:
			if id, ok := n.Fun.(*ast.Ident); ok && len(n.Args) == 1 {
				if _, isB := r.p.TypesInfo.Uses[id].(*types.Builtin); isB && r.isChan(n.Args[0]) {
					switch id.Name {
					case "close":
						r.stats["close"]++
						c.Replace(r.call("vsched", "Close", r.loc(n.Pos()), n.Args[0]))
					case "len":
						r.stats["len"]++
						c.Replace(r.call("vsched", "Len", n.Args[0]))
					case "cap":
						r.stats["cap"]++
						c.Replace(r.call("vsched", "Cap", n.Args[0]))
					}
				}
			}
		case *ast.RangeStmt:
			if r.isChan(n.X) {
				r.stats["rangechan"]++
				okv := r.tmp()
				var lhs ast.Expr = ast.NewIdent("_")
				tok := token.DEFINE
				if n.Key != nil {
					lhs = n.Key
					if n.Tok == token.ASSIGN {
						tok = token.ASSIGN
					}
				}
				var pre []ast.Stmt
				if tok == token.ASSIGN {
					pre = append(pre, &ast.DeclStmt{Decl: &ast.GenDecl{Tok: token.VAR, Specs: []ast.Spec{&ast.ValueSpec{Names: []*ast.Ident{ast.NewIdent(okv)}, Type: ast.NewIdent("bool")}}}})
				}
				as := &ast.AssignStmt{Lhs: []ast.Expr{lhs, ast.NewIdent(okv)}, Tok: tok, Rhs: []ast.Expr{r.call("vsched", "Recv2", r.loc(n.Pos()), n.X)}}
				brk := &ast.IfStmt{Cond: &ast.UnaryExpr{Op: token.NOT, X: ast.NewIdent(okv)}, Body: &ast.BlockStmt{List: []ast.Stmt{&ast.BranchStmt{Tok: token.BREAK}}}}
				body := append(append(pre, as, brk), n.Body.List...)
				c.Replace(&ast.ForStmt{Body: &ast.BlockStmt{List: body}})
			}
		case *ast.SelectStmt:
			r.stats["select"]++
			var pre []ast.Stmt
			var cases []ast.Expr
			var clauses []ast.Stmt
			hasDefault := "false"
			idx := 0
			for _, cl := range n.Body.List {
				cc := cl.(*ast.CommClause)
				if cc.Comm == nil {
					hasDefault = "true"
					clauses = append(clauses, &ast.CaseClause{List: nil, Body: cc.Body})
					continue
				}
				cv := r.tmp()
				var mk ast.Expr
				var head []ast.Stmt
				switch s := cc.Comm.(type) {
				case *ast.SendStmt:
					mk = &ast.CallExpr{Fun: &ast.SelectorExpr{X: r.call("vsched", "SendCase", s.Chan), Sel: ast.NewIdent("With")}, Args: []ast.Expr{s.Value}}
				case *ast.ExprStmt:
					u, _ := isRecv(s.X)
					mk = r.call("vsched", "RecvCase", u.X)
				case *ast.AssignStmt:
					u, _ := isRecv(s.Rhs[0])
					mk = r.call("vsched", "RecvCase", u.X)
					fn := "Val"
					if len(s.Lhs) == 2 {
						fn = "Val2"
					}
					head = append(head, &ast.AssignStmt{Lhs: s.Lhs, Tok: s.Tok, Rhs: []ast.Expr{&ast.CallExpr{Fun: &ast.SelectorExpr{X: ast.NewIdent(cv), Sel: ast.NewIdent(fn)}}}})
				}
				pre = append(pre, &ast.AssignStmt{Lhs: []ast.Expr{ast.NewIdent(cv)}, Tok: token.DEFINE, Rhs: []ast.Expr{mk}})
				cases = append(cases, ast.NewIdent(cv))
				clauses = append(clauses, &ast.CaseClause{List: []ast.Expr{&ast.BasicLit{Kind: token.INT, Value: strconv.Itoa(idx)}}, Body: append(head, cc.Body...)})
				idx++
			}
			if hasDefault == "false" {
				clauses = append(clauses, &ast.CaseClause{List: nil, Body: []ast.Stmt{&ast.ExprStmt{X: &ast.CallExpr{Fun: ast.NewIdent("panic"), Args: []ast.Expr{&ast.BasicLit{Kind: token.STRING, Value: strconv.Quote("vsched: bad select index")}}}}}})
			}
			args := append([]ast.Expr{r.loc(n.Pos()), ast.NewIdent(hasDefault)}, cases...)
			sw := &ast.SwitchStmt{Tag: r.call("vsched", "Select", args...), Body: &ast.BlockStmt{List: clauses}}
			c.Replace(&ast.BlockStmt{List: append(pre, sw)})
		}
		return true
	})
}
