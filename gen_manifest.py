#!/usr/bin/env python3
"""Regenerates MANIFEST.json from the table below (kept next to vcheck so the two stay in step)."""
import json, os, re, sys
V = os.path.dirname(os.path.abspath(__file__))
CHECKS = {
 # id: (level, technique, text, note, design_ref, engine)
 "C01": ("model_checking", "explicit-state BFS for the reachable states + exhaustive single-mutation (thorough: pair) enumeration of every dispatched message type in every state, executed on the real dispatcher; byte-level neighbourhood enumeration",
         "States: BFS (depth 3 quick / 4 thorough) over association, PFD, establishment, deletion, release on 2 associations with UE-IP allocation on and off. In every distinct state, for one rich well-formed message of each of the 9 dispatched types plus response-type and unsupported types: every single mutation - drop / duplicate / empty / truncate / pad / retype (6 target types) / IPv6-only (F-SEID, F-TEID, UE IP, Outer Header Creation, Node ID) / 22 flow-description truncations and malformed or IPv6 texts / reversed order / header S-flag and length - at every IE position of every nesting level. Byte level in a state with a live session: every prefix, 12 values at every byte position, all strings of length <= 2. Oracle: no panic, no Fatal (turned into a panic), handler returns, at most one datagram per injected datagram, a valid Heartbeat afterwards is answered on the same and on the other association, canonical state key unchanged or the state is rebuilt.",
         "Mutants are injected into the same instance while the canonical state key stays unchanged (checked after every case). A datagram for an association that ended is handled by a fresh PFCPConn, as node.go does. Only panics on the handler goroutine are recovered in-process; others kill the worker and are attributed through the journal.", "8/C01", "SEQ"),
 "C02": ("model_checking", "explicit-state BFS over request histories executed on the real handlers, responses decoded and compared with a reference model; exhaustive sequence-number sweep",
         "Breadth-first search over all histories (depth 5 quick / 6 thorough) of an alphabet of association, heartbeat, PFD, establishment (4 CP SEIDs incl. 0 and 2^64-1, equal SEIDs on two sessions, CHOOSE/UE-IP allocation, wrong node), modification (accepted, CP F-SEID change, rejected), deletion, unknown-session and response-type messages over 2 associations x <=3 sessions, in 8 scenarios (UE-IP allocation, datapath down, scripted random sources yielding 0 / repeating / period 2, configured node id as FQDN and IP); each step calls the real HandlePFCPMsg and every datagram written to the peer socket is decoded and checked (count, type, sequence number, S flag/SEID, node id, UP F-SEID, Created PDR). Sequence numbers: all 2^24 values for Heartbeat and unknown-session Deletion in the thorough tier, boundary set + every 251st in quick.",
         "Trusts go-pfcp's decoder (the agent uses the same one); the PFCPConn is assembled by the harness like NewPFCPConn does (in-memory socket, injected random source); acceptance is observed, not predicted.", "8/C02", "SEQ"),
 "C18": ("exploration", "bounded-exhaustive enumeration of a document lattice x comment placements on the real loader vs. refConf + differential oracle",
         "Documents = base (BESS|UP4) + at most 2 (quick) / 3 (thorough) deviations over a 34-field lattice of valid/boundary/invalid-type/invalid-value representatives; every document is loaded plain and with each of 10 comment forms in every token gap (2 forms for 2-deviation documents; two simultaneous comments for <=1 deviation), plus every truncation and a byte-mutation neighbourhood of the base documents and all shipped sample configurations. Oracle: no panic; a returned Conf satisfies refConf (defaults, durations parse, mode, CIDRs, peers), given scalar values arrive unchanged, and comments never change the result.",
         "refConf is my reading of the statement; string values containing comment markers and multi-line block comments are only checked for crash-freedom/validity as the statement says.", "8/C18", "ENUM"),
 "C03": ("model_checking", "explicit-state BFS over session histories on the real handlers + real bess plug-in against a fake BESS; table image compared with the reference denotation after every step; exhaustive kill/restart point enumeration",
         "BFS (depth 5 quick / 6 thorough) over establishments (basic, 3 QERs, SDF families with exact port / small range / prefix lengths / protocols, no QER with drop and buffer FARs and extreme precedences, CHOOSE) and modifications (update FAR forward<->buffer, create rules, update PDR with the same and with a new match key, update QER, remove first / last / two PDRs, remove valid-then-unknown, create-then-remove-unknown, remove FAR+QER) and deletions over 2 associations x <=3 sessions. After every response: each pdrLookup entry must be attributable to a live PDR and equal its denotation field by field (port expansions by interval algebra), FAR and QER tables exact, priorities ordered like precedences, boundary packets (+-1 on each of the 8 fields, pairs) classified identically by fake and reference, unknown-session / no-association requests write nothing. Crash points: every history up to depth 3 x every gRPC command index k: agent killed after k commands, new incarnation through the real SetUpfInfo over gRPC against the populated fake must start from empty tables and program exactly its image.",
         "The fake BESS's table semantics (upsert by (masked values, masks) / by fields; delete of absent key is an error) and the rule denotation of DESIGN.md appendix A are trusted; acceptance is observed, not predicted; a divergence seen after a rejected request is reported only if it persists after a further accepted request.", "8/C03", "SEQ"),
 "C17": ("exploration", "bounded-exhaustive enumeration of the input domain on the real functions vs. interval-algebra reference",
         "Every (low,high) pair - thorough: all 2^31 ordered pairs for both strategies and all 2^32 pairs for classification/trivial conversion; quick: all pairs below 2048 plus the power-of-two/edge neighbourhood - is expanded by the real code and the rule set is compared with the set the range denotes; products over boundary-class range pairs; port texts. Complete over the property's own quantifier in the thorough tier.",
         "Trusts the ternary-match semantics p&mask==port&mask and the Go toolchain; 0-0 is wildcard by documented design.", "8/C17", "ENUM"),
}
NOT_YET = {}
props = [json.loads(l) for l in open(os.path.join(V, "properties.jsonl"))]
checks = []
for p in props:
    pid = p["id"]
    if pid in CHECKS:
        lvl, tech, text, note, ref, eng = CHECKS[pid]
        checks.append(dict(property_id=pid, quick_cmd="./vcheck %s --tier quick" % pid,
                           thorough_cmd="./vcheck %s --tier thorough" % pid,
                           evidence_file="/verif/evidence/%s.json" % pid,
                           replay_cmd_template="./vcheck replay {path}", engine=eng,
                           level_claimed=dict(category=lvl, text=text, design_ref="DESIGN.md section " + ref),
                           level_note=note, technique=tech))
na = [dict(property_id=p["id"], reason=NOT_YET.get(p["id"], "check not built yet in this round (planned, see DESIGN.md section 8); no claim is made"))
      for p in props if p["id"] not in CHECKS]
m = dict(version=1,
         setup_cmd="./vcheck setup",
         hooks=dict(guard="verif", enable="go test -c -tags verif -overlay <generated json> (harness files and, for the scheduler engine, mechanically rewritten copies of pfcpiface/*.go are injected at build time from /repo's current working tree; no hook commit exists in /repo)",
                    baseline_off_cmd="cd /repo && GOFLAGS=-mod=mod go test -vet=off -count=1 ./...",
                    source_commits=[], add_only=True),
         engines=[dict(name="ENUM", path="/verif/harness", serves_properties=["C17", "C18"], kind_free_text="bounded-exhaustive input enumeration against a reference, on the real functions"),
                  dict(name="SEQ", path="/verif/harness", serves_properties=["C01", "C02", "C03"], kind_free_text="explicit-state BFS over operation histories; each transition calls the real handler on a freshly built real instance (replay), state de-duplication by canonical key with agent-chosen identifiers renamed"),
                  ],
         checks=checks, not_applicable=na,
         notes="All checks run through ./vcheck (python orchestrator): it rebuilds the test binary from /repo's working tree with the harness overlaid, shards the enumeration over 16 worker processes, merges their results, compares finding signatures with known_findings.txt and writes evidence/<id>.json. Exit 2 = infrastructure error (never with a VIOLATION line).")
json.dump(m, open(os.path.join(V, "MANIFEST.json"), "w"), indent=1)
print("checks:", [c["property_id"] for c in checks], "n/a:", len(na))
