#!/usr/bin/env python3
"""Regenerates MANIFEST.json from the table below (kept next to vcheck so the two stay in step)."""
import json, os, re, sys
V = os.path.dirname(os.path.abspath(__file__))
CHECKS = {
 # id: (level, technique, text, note, design_ref, engine)
 "C17": ("exploration", "bounded-exhaustive enumeration of the input domain on the real functions vs. interval-algebra reference",
         "Every (low,high) pair - thorough: all 2^31 ordered pairs for both strategies and all 2^32 pairs for classification/trivial conversion; quick: all pairs below 2048 plus the power-of-two/edge neighbourhood - is expanded by the real code and the rule set is compared with the set the range denotes; products over boundary-class range pairs; port texts. Complete over the property's own quantifier in the thorough tier.",
         "Trusts the ternary-match semantics p&mask==port&mask and the Go toolchain; 0-0 is wildcard by documented design.", "8/C17", "ENUM"),
}
NOT_YET = {}
props = [json.loads(l) for l in open(os.path.join(V, "properties.jsonl"))]
checks = []
for p in props:
    pid = p["id"]
    if pid in CHECKS:
        lvl, tech, text, note, ref, eng = CHECKS[pid]
        checks.append(dict(property_id=pid, quick_cmd="./vcheck %s --tier quick" % pid,
                           thorough_cmd="./vcheck %s --tier thorough" % pid,
                           evidence_file="/verif/evidence/%s.json" % pid,
                           replay_cmd_template="./vcheck replay {path}", engine=eng,
                           level_claimed=dict(category=lvl, text=text, design_ref="DESIGN.md section " + ref),
                           level_note=note, technique=tech))
na = [dict(property_id=p["id"], reason=NOT_YET.get(p["id"], "check not built yet in this round (planned, see DESIGN.md section 8); no claim is made"))
      for p in props if p["id"] not in CHECKS]
m = dict(version=1,
         setup_cmd="./vcheck setup",
         hooks=dict(guard="verif", enable="go test -c -tags verif -overlay <generated json> (harness files and, for the scheduler engine, mechanically rewritten copies of pfcpiface/*.go are injected at build time from /repo's current working tree; no hook commit exists in /repo)",
                    baseline_off_cmd="cd /repo && GOFLAGS=-mod=mod go test -vet=off -count=1 ./...",
                    source_commits=[], add_only=True),
         engines=[dict(name="ENUM", path="/verif/harness", serves_properties=["C17"], kind_free_text="bounded-exhaustive input enumeration against a reference, on the real functions"),
                  ],
         checks=checks, not_applicable=na,
         notes="All checks run through ./vcheck (python orchestrator): it rebuilds the test binary from /repo's working tree with the harness overlaid, shards the enumeration over 16 worker processes, merges their results, compares finding signatures with known_findings.txt and writes evidence/<id>.json. Exit 2 = infrastructure error (never with a VIOLATION line).")
json.dump(m, open(os.path.join(V, "MANIFEST.json"), "w"), indent=1)
print("checks:", [c["property_id"] for c in checks], "n/a:", len(na))
