//go:build verif

// C11 - scenario bodies shared by the scheduler-driven exploration (c11.go, instrumented build) and the free-running
// race-detector complement (c11race.go, -race build): each association is a thread feeding its own real PFCPConn a
// stream of requests through HandlePFCPMsg; all share one plug-in.
package pfcpiface

import (
	"fmt"
	"sort"
	"strings"

	"github.com/wmnsk/go-pfcp/ie"
)

type c11Scenario struct {
	Name    string     `json:"name"`
	P4      bool       `json:"p4"`
	Streams [][]string `json:"streams"` // per association: est / est2 / mod / del
	// Pre: per association, requests handled one after the other before the concurrent phase (brings the shared pools
	// into a non-initial state, e.g. exhausted); Pool: UE address pool (default a /29); Alloc: UE addresses are
	// UP-allocated on BESS too; Extra: explored one deviation deeper than the tier's bound (short streams)
	Pre   [][]string `json:"pre,omitempty"`
	Pool  string     `json:"pool,omitempty"`
	Alloc bool       `json:"alloc,omitempty"`
	Extra int        `json:"extra,omitempty"`
}

func c11Scenarios() []c11Scenario {
	return []c11Scenario{
		{Name: "up4-est-del-x2", P4: true, Streams: [][]string{{"est", "del"}, {"est", "del"}}},
		{Name: "up4-est-mod-del-x2", P4: true, Streams: [][]string{{"est", "mod", "del"}, {"est", "mod", "del"}}},
		{Name: "up4-est-del-vs-est-mod", P4: true, Streams: [][]string{{"est", "del"}, {"est", "mod"}}},
		{Name: "bess-est-mod-del-x2", P4: false, Streams: [][]string{{"est", "mod", "del"}, {"est", "mod", "del"}}},
		// the UE address pool is exhausted when the concurrent phase starts: a deletion races with an establishment that
		// can only succeed with the address the deletion gives back
		{Name: "up4-pool-exhausted-del-vs-est", P4: true, Pool: "10.250.0.0/30", Pre: [][]string{{"est"}, {"est"}}, Streams: [][]string{{"del"}, {"est2"}}, Extra: 1},
		{Name: "bess-pool-exhausted-del-vs-est", P4: false, Alloc: true, Pool: "10.250.0.0/30", Pre: [][]string{{"est"}, {"est"}}, Streams: [][]string{{"del"}, {"est2"}}, Extra: 1},
		{Name: "up4-pool-exhausted-del-est-vs-est", P4: true, Pool: "10.250.0.0/30", Pre: [][]string{{"est"}, {"est"}}, Streams: [][]string{{"del", "est2"}, {"est2"}}},
		{Name: "up4-est-del-x3", P4: true, Streams: [][]string{{"est", "del"}, {"est", "del"}, {"est", "del"}}},
	}
}

func c11Cfg(sc c11Scenario) vCfg {
	pool := "10.250.0.0/29"
	if sc.Pool != "" {
		pool = sc.Pool
	}
	cfg := vCfg{NConns: len(sc.Streams), P4: sc.P4, UEIPAlloc: true, Pool: pool}
	if sc.P4 {
		cfg.P4Conf = &vP4Cfg{DefaultTC: 3, UEPool: pool, CounterSize: 16}
	}
	return cfg
}

// c11Request builds request k of association a. Sessions of different associations share the gNB and the application
// filter; UE addresses and TEIDs are the agent's to choose (CHOOSE F-TEID, UE IP allocation from a small pool).
func c11Request(in *vInst, sc c11Scenario, a int, kind string, upseid uint64) []byte {
	c := in.conns[a]
	switch kind {
	case "est", "est2":
		cpseid := uint64(0xA0 + a)
		if kind == "est2" {
			cpseid = uint64(0xB0 + a)
		}
		p, f, q := up4RuleSet("", 0, c04Peers[0], c04SDFs[0], 1, 0)
		for i := range p {
			if p[i].Src == ie.SrcInterfaceAccess {
				p[i].FTEID, p[i].UEIP = &sFTEID{Choose: true}, ""
			} else {
				p[i].UEIP, p[i].UEAlloc = "", true
			}
		}
		if !in.cfg.P4 && !sc.Alloc {
			// BESS: uplink rules need the UE address themselves; give CP-chosen distinct ones
			ue := fmt.Sprintf("16.0.%d.1", a)
			for i := range p {
				p[i].UEAlloc, p[i].UEIP = false, ue
				if p[i].Src == ie.SrcInterfaceAccess {
					p[i].FTEID = &sFTEID{Choose: true}
				}
			}
		}
		return (&sReq{Kind: kEst, Conn: a, CPSEID: cpseid, Seq: 10, CreatePDR: p, CreateFAR: f, CreateQER: q}).build(c).marshal()
	case "mod":
		return (&sReq{Kind: kMod, Conn: a, SEID: upseid, Seq: 11, UpdateFAR: []sFAR{{ID: 2, Action: ActionForward, HasFwd: true, HasDst: true, Dst: ie.DstInterfaceAccess, OHCIP: c04Peers[1], OHCTEID: uint32(0x7000 + a)}}}).build(c).marshal()
	case "del":
		return (&sReq{Kind: kDel, Conn: a, SEID: upseid, Seq: 12}).build(c).marshal()
	}
	panic("unknown request kind")
}

// c11Prologue handles the Pre requests one after the other (association 0 first) and returns the UP F-SEID each
// association's later requests address. handle delivers one datagram and returns what was written back.
func c11Prologue(in *vInst, sc c11Scenario, handle func(a int, b []byte) [][]byte) []uint64 {
	ups := make([]uint64, len(sc.Streams))
	for a := range sc.Pre {
		for _, kind := range sc.Pre[a] {
			resp := handle(a, c11Request(in, sc, a, kind, ups[a]))
			if len(resp) != 1 {
				panic("VERIF-INFRA: C11 prologue: no single response to " + kind)
			}
			d, err := vDecode(resp[0])
			if err != nil || d.Cause != ie.CauseRequestAccepted {
				panic(fmt.Sprintf("VERIF-INFRA: C11 prologue: %s not accepted (%v, cause %d)", kind, err, d.Cause))
			}
			if d.HasFSEID {
				ups[a] = d.UPSEID
			}
		}
	}
	return ups
}

type c11Result struct {
	Causes []string // per association: causes of its requests
	Final  string   // canonical datapath + pool state at the end
	Panic  string
}

func (r c11Result) key() string {
	return strings.Join(r.Causes, " | ") + "\n" + r.Final
}

// c11Stream runs the request stream of association a (called from a thread of its own).
func c11Stream(in *vInst, sc c11Scenario, a int, out *c11Result, ups []uint64) {
	var upseid uint64
	if a < len(ups) {
		upseid = ups[a]
	}
	var causes []string
	for _, kind := range sc.Streams[a] {
		c := in.conns[a]
		c.sock.take()
		fr, msg := vCatch(func() { c.pc.HandlePFCPMsg(c11Request(in, sc, a, kind, upseid)) })
		if fr != "" {
			out.Panic = fr + ": " + msg
			causes = append(causes, kind+"=panic")
			break
		}
		resp := c.sock.take()
		if len(resp) != 1 {
			causes = append(causes, fmt.Sprintf("%s=%d-responses", kind, len(resp)))
			continue
		}
		d, err := vDecode(resp[0])
		if err != nil {
			causes = append(causes, kind+"=undecodable")
			continue
		}
		causes = append(causes, fmt.Sprintf("%s=%d", kind, d.Cause))
		if d.HasFSEID {
			upseid = d.UPSEID
		}
	}
	out.Causes[a] = fmt.Sprintf("a%d:%s", a, strings.Join(causes, ","))
}

// c11Final renders the end state canonically (agent-chosen identifiers renamed / sorted).
func c11Final(in *vInst) string {
	rn := &vRenamer{seid: map[uint64]string{}, teid: map[uint32]string{}, ue: map[uint32]string{}}
	var b strings.Builder
	if in.p4 != nil {
		// UE addresses and TEIDs are agent-chosen here: rename by sorted order of appearance in the tables
		var ues, teids []uint64
		seenU, seenT := map[uint64]bool{}, map[uint64]bool{}
		for _, t := range fpSessionTables {
			for _, e := range in.p4.fp.list(t) {
				if m, ok := e.Match["ue_address"]; ok && !seenU[m.Val] {
					seenU[m.Val] = true
					ues = append(ues, m.Val)
				}
				if m, ok := e.Match["teid"]; ok && !seenT[m.Val] {
					seenT[m.Val] = true
					teids = append(teids, m.Val)
				}
			}
		}
		// a renaming that does not depend on which literal address/TEID a session drew: order by the entry shapes they occur in
		shape := func(v uint64, field string) string {
			var ss []string
			for _, t := range fpSessionTables {
				for _, e := range in.p4.fp.list(t) {
					if m, ok := e.Match[field]; ok && m.Val == v {
						ss = append(ss, e.Table+"/"+e.Action+fmt.Sprint(e.Params["teid"] >= 0x7000, e.Params["qfi"]))
					}
				}
			}
			sort.Strings(ss)
			return strings.Join(ss, ";")
		}
		sort.Slice(ues, func(i, j int) bool { return shape(ues[i], "ue_address") < shape(ues[j], "ue_address") })
		sort.Slice(teids, func(i, j int) bool { return shape(teids[i], "teid") < shape(teids[j], "teid") })
		for i, u := range ues {
			rn.ue[uint32(u)] = fmt.Sprintf("U%d[%s]", i, shape(u, "ue_address"))
		}
		for i, t := range teids {
			rn.teid[uint32(t)] = fmt.Sprintf("T%d", i)
		}
		b.WriteString(in.p4.digest(rn))
	}
	if in.fb != nil {
		var lines []string
		for _, e := range in.fb.pdrList() {
			lines = append(lines, fmt.Sprintf("P if=%d prio=%d far=%d", e.Values[0], e.Priority, e.Far))
		}
		for _, e := range in.fb.farList() {
			lines = append(lines, fmt.Sprintf("F far=%d act=%d dst=%s", e.FarID, e.Values[0], vIPStr(uint32(e.Values[3]))))
		}
		for _, m := range []string{AppQerLookup, SessQerLookup} {
			lines = append(lines, fmt.Sprintf("Q %s n=%d", m, len(in.fb.qosList(m))))
		}
		sort.Strings(lines)
		b.WriteString(strings.Join(lines, "\n"))
	}
	if p := in.u.ippool; p != nil {
		fmt.Fprintf(&b, "\npool free=%d held=%d", len(p.freePool), len(p.inventory))
	}
	fmt.Fprintf(&b, " teids=%d", len(in.u.fteidGenerator.usedMap))
	for i, c := range in.conns {
		fmt.Fprintf(&b, " store%d=%d", i, len(c.pc.store.GetAllSessions()))
	}
	return b.String()
}

// c11Serial computes the outcomes of every one-at-a-time order of the streams (consistent with per-association order)
// by running the implementation itself sequentially: the differential oracle of C11.
func c11Serial(sc c11Scenario) map[string]string {
	out := map[string]string{}
	n := len(sc.Streams)
	var rec func(pos []int, order []int)
	rec = func(pos []int, order []int) {
		doneAll := true
		for a := 0; a < n; a++ {
			if pos[a] < len(sc.Streams[a]) {
				doneAll = false
				np := append([]int{}, pos...)
				np[a]++
				rec(np, append(append([]int{}, order...), a))
			}
		}
		if !doneAll {
			return
		}
		in := newVInst(c11Cfg(sc))
		for i := range in.conns {
			in.inject(i, (&sReq{Kind: kAssoc, Conn: i, Seq: 1}).build(in.conns[i]).marshal())
		}
		res := c11Result{Causes: make([]string, n)}
		ups := c11Prologue(in, sc, func(a int, b []byte) [][]byte { r, _, _ := in.inject(a, b); return r })
		step := make([]int, n)
		causes := make([][]string, n)
		for _, a := range order {
			kind := sc.Streams[a][step[a]]
			step[a]++
			resp, fr, _ := in.inject(a, c11Request(in, sc, a, kind, ups[a]))
			if fr != "" || len(resp) != 1 {
				causes[a] = append(causes[a], kind+"=?")
				continue
			}
			d, _ := vDecode(resp[0])
			causes[a] = append(causes[a], fmt.Sprintf("%s=%d", kind, d.Cause))
			if d.HasFSEID {
				ups[a] = d.UPSEID
			}
		}
		for a := 0; a < n; a++ {
			res.Causes[a] = fmt.Sprintf("a%d:%s", a, strings.Join(causes[a], ","))
		}
		res.Final = c11Final(in)
		in.close()
		out[res.key()] = fmt.Sprint(order)
	}
	rec(make([]int, n), nil)
	return out
}
