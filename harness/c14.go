//go:build verif

// C14 - end markers go to the old tunnel, once. Engine SEQ: BFS over chains of FAR updates on the real handlers;
// packets are taken from the plug-in's end-marker sink (BESS: the channel feeding the unixpacket socket; UP4:
// PacketOut at the fake switch) and decoded as Ethernet/IPv4/UDP/GTPv1-U.
package pfcpiface

import (
	"encoding/json"
	"fmt"
	"net"
	"reflect"
	"runtime"
	"sort"
	"syscall"
	"testing"
	"time"

	"github.com/google/gopacket"
	"github.com/google/gopacket/layers"
	"github.com/wmnsk/go-pfcp/ie"
)

type emPacket struct {
	Src, Dst     string
	SPort, DPort uint16
	TEID         uint32
	MsgType      uint8
	Bad          string
}

func decodeEndMarker(b []byte) emPacket {
	var p emPacket
	pk := gopacket.NewPacket(b, layers.LayerTypeEthernet, gopacket.Default)
	ip, _ := pk.Layer(layers.LayerTypeIPv4).(*layers.IPv4)
	udp, _ := pk.Layer(layers.LayerTypeUDP).(*layers.UDP)
	gtp, _ := pk.Layer(layers.LayerTypeGTPv1U).(*layers.GTPv1U)
	if ip == nil || udp == nil || gtp == nil {
		p.Bad = "not an Ethernet/IPv4/UDP/GTPv1-U packet"
		return p
	}
	p.Src, p.Dst, p.SPort, p.DPort, p.TEID, p.MsgType = ip.SrcIP.String(), ip.DstIP.String(), uint16(udp.SrcPort), uint16(udp.DstPort), gtp.TEID, gtp.MessageType
	return p
}

func (p emPacket) String() string {
	if p.Bad != "" {
		return p.Bad
	}
	return fmt.Sprintf("%s:%d>%s:%d teid=%#x type=%d", p.Src, p.SPort, p.Dst, p.DPort, p.TEID, p.MsgType)
}

// takeEndMarkers drains the plug-in's end-marker sink.
func (in *vInst) takeEndMarkers() [][]byte {
	var out [][]byte
	if in.bs != nil && in.emConn != nil {
		// at the socket, as BESS sees them: one record = one packet. First let the plug-in's send loop finish: its queue is
		// empty and the loop is parked in its receive (every Write it did has returned, i.e. the records are in the socket)
		q := vFieldValue(in.bs, "endMarkerChan")
		for t0 := time.Now(); ; {
			if (!q.IsValid() || q.Len() == 0) && vGoroutineParked("endMarkerSendLoop", "chan receive") {
				break
			}
			if time.Since(t0) > 60*time.Second {
				panic("VERIF-INFRA: the end-marker send loop of the bess plug-in did not come to rest within 60 s")
			}
			runtime.Gosched()
		}
		rc, err := in.emConn.(*net.UnixConn).SyscallConn()
		if err != nil {
			panic("VERIF-INFRA: " + err.Error())
		}
		buf := make([]byte, 65536)
		for {
			n, rerr := 0, error(nil)
			rc.Read(func(fd uintptr) bool {
				n, _, rerr = syscall.Recvfrom(int(fd), buf, syscall.MSG_DONTWAIT)
				return true // never wait: what is there is there
			})
			if rerr != nil || n <= 0 {
				return out
			}
			out = append(out, append([]byte{}, buf[:n]...))
		}
	}
	if in.bs != nil {
		// no socket (end markers disabled): anything queued is reported as a packet of unknown content
		if q := vFieldValue(in.bs, "endMarkerChan"); q.IsValid() && q.Kind() == reflect.Chan && !q.IsNil() {
			for q.Len() > 0 {
				v, ok := q.TryRecv()
				if !ok {
					break
				}
				if b, isBytes := v.Interface().([]byte); isBytes {
					out = append(out, append([]byte{}, b...))
				} else {
					out = append(out, []byte{})
				}
			}
		}
		return out
	}
	if in.p4 != nil {
		return in.p4.takePacketOuts()
	}
	return out
}

var c14Peers = []string{"11.1.1.129", "11.1.1.130"}

func c14Alphabet(s *sessSys) []sessReq {
	var out []sessReq
	add := func(label string, r sessReq) {
		r.Label = label
		out = append(out, r)
	}
	if s.m.Assoc[0] == "" {
		add("assoc", sessReq{sReq: sReq{Kind: kAssoc, Conn: 0}})
		return out
	}
	if len(s.m.Sess) == 0 {
		for pi, peer := range c14Peers {
			for _, teid := range []uint32{0x1001, 0x2002} {
				p, f, q := rsBasic("16.0.0.1", 0x100, peer)
				f[1].OHCTEID = teid
				// a second downlink FAR with its own tunnel (used by a second downlink PDR)
				p = append(p, sPDR{ID: 3, Prec: 90, Src: ie.SrcInterfaceCore, UEIP: "16.0.0.1", SDF: "permit out udp from 10.1.0.0/16 80 to assigned", FAR: 3, QERs: []uint32{1}})
				f = append(f, sFAR{ID: 3, Action: ActionForward, HasFwd: true, HasDst: true, Dst: ie.DstInterfaceAccess, OHCIP: c14Peers[1-pi], OHCTEID: teid + 0x10})
				add(fmt.Sprintf("est-peer%d-teid%x", pi, teid), sessReq{sReq: sReq{Kind: kEst, Conn: 0, CPSEID: 7, CreatePDR: p, CreateFAR: f, CreateQER: q}})
				if teid == 0x1001 {
					// the two downlink FARs go to different peers that happened to choose the same TEID value
					f2 := append([]sFAR{}, f...)
					f2[2].OHCTEID = teid
					add(fmt.Sprintf("est-peer%d-both-teid%x", pi, teid), sessReq{sReq: sReq{Kind: kEst, Conn: 0, CPSEID: 7, CreatePDR: p, CreateFAR: f2, CreateQER: q}})
				}
			}
		}
		return out
	}
	x := s.m.Sess[0]
	if x.Dead {
		return out
	}
	flagOn, flagOff := u8(0x02), u8(0x00)
	otherBits := u8(0x05) // DROBU + QAURR without SNDEM
	cur := x.far(2)
	mkU := func(id uint32, peer string, teid uint32, fl *uint8) sFAR {
		return sFAR{ID: id, Action: ActionForward, HasFwd: true, HasDst: true, Dst: ie.DstInterfaceAccess, OHCIP: peer, OHCTEID: teid, SMFlags: fl}
	}
	type tun struct {
		peer string
		teid uint32
	}
	tuns := []tun{{c14Peers[0], 0x1001}, {c14Peers[1], 0x2002}}
	if cur != nil && cur.OHCIP != "" {
		tuns = append(tuns, tun{cur.OHCIP, cur.OHCTEID}) // unchanged tunnel
	}
	mixed := u8(0x07) // SNDEM together with DROBU and QAURR: the flag is a bit, not the octet's value
	for ti, tn := range tuns {
		for fi, fl := range []*uint8{flagOn, flagOff, mixed, nil, otherBits} {
			if fi >= 3 && ti != 0 {
				continue
			}
			add(fmt.Sprintf("ufar2-t%d-f%d", ti, fi), sessReq{sReq: sReq{Kind: kMod, Conn: 0, UpdateFAR: []sFAR{mkU(2, tn.peer, tn.teid, fl)}}, Sess: 0})
		}
	}
	add("ufar-unknown-flag", sessReq{sReq: sReq{Kind: kMod, Conn: 0, UpdateFAR: []sFAR{mkU(77, c14Peers[0], 0x1001, flagOn)}}, Sess: 0})
	add("ufar2+3-flag", sessReq{sReq: sReq{Kind: kMod, Conn: 0, UpdateFAR: []sFAR{mkU(2, c14Peers[1], 0x2002, flagOn), mkU(3, c14Peers[0], 0x3003, flagOn)}}, Sess: 0})
	add("ufar3+2-flag-noflag", sessReq{sReq: sReq{Kind: kMod, Conn: 0, UpdateFAR: []sFAR{mkU(3, c14Peers[0], 0x3003, flagOn), mkU(2, c14Peers[1], 0x2002, flagOff)}}, Sess: 0})
	add("ufar2+unknown-flag", sessReq{sReq: sReq{Kind: kMod, Conn: 0, UpdateFAR: []sFAR{mkU(2, c14Peers[1], 0x2002, flagOn), mkU(77, c14Peers[0], 0x1001, flagOn)}}, Sess: 0})
	add("ufar2-buffer-flag", sessReq{sReq: sReq{Kind: kMod, Conn: 0, UpdateFAR: []sFAR{{ID: 2, Action: ActionBuffer | ActionNotify, HasFwd: true, SMFlags: flagOn}}}, Sess: 0})
	add("ufar-flag-unknown-session", sessReq{sReq: sReq{Kind: kMod, Conn: 0, UpdateFAR: []sFAR{mkU(2, c14Peers[1], 0x2002, flagOn)}}, Sess: -1})
	// refused requests that carry a flagged update of a known FAR: nothing is emitted, neither now nor with a later request
	add("ufar2-flag-refused-remove-unknown", sessReq{sReq: sReq{Kind: kMod, Conn: 0, UpdateFAR: []sFAR{mkU(2, c14Peers[1], 0x2002, flagOn)}, RemovePDR: []uint16{99}}, Sess: 0})
	add("ufar2-flag-refused-bad-pdr", sessReq{sReq: sReq{Kind: kMod, Conn: 0, UpdateFAR: []sFAR{mkU(2, c14Peers[0], 0x1001, flagOn)},
		CreatePDR: []sPDR{{ID: 8, Prec: 10, Src: ie.SrcInterfaceCore, UEIP: "16.0.0.1", BadSDF: true, FAR: 2}}}, Sess: 0})
	if s.in.cfg.P4 {
		add("ufar2-flag-refused-write-fails", sessReq{sReq: sReq{Kind: kMod, Conn: 0, UpdateFAR: []sFAR{mkU(2, c14Peers[1], 0x2002, flagOn)}}, Sess: 0, FailAt: 1})
	}
	if x.far(9) == nil {
		add("create-far-with-flag", sessReq{sReq: sReq{Kind: kMod, Conn: 0, CreateFAR: []sFAR{{ID: 9, Action: ActionForward, HasFwd: true, HasDst: true, Dst: ie.DstInterfaceAccess, OHCIP: c14Peers[0], OHCTEID: 0x9009, SMFlags: flagOn}}}, Sess: 0})
	}
	return out
}

// c14Oracle compares the emitted packets with what the statement demands for this step. The model session still holds
// the FARs as they were *before* the step when preStep runs (captured in c14Pre).
type c14State struct {
	pre map[uint32]sFAR
}

func c14Oracle(st *c14State) (pre func(s *sessSys, r *sessReq), post func(c *stepCtx)) {
	pre = func(s *sessSys, r *sessReq) {
		st.pre = map[uint32]sFAR{}
		if r.Kind == kMod && r.Sess >= 0 && r.Sess < len(s.m.Sess) && !s.m.Sess[r.Sess].Dead {
			for _, f := range s.m.Sess[r.Sess].FARs {
				st.pre[f.ID] = f
			}
		}
		s.in.takeEndMarkers()
		s.emEarly = 0
		if s.in.fb != nil {
			s.in.fb.onCmd = func() {
				if q := vFieldValue(s.in.bs, "endMarkerChan"); q.IsValid() && q.Kind() == reflect.Chan {
					s.emEarly += q.Len()
				}
			}
		}
	}
	post = func(c *stepCtx) {
		s := c.sys
		if s.in.fb != nil {
			s.in.fb.onCmd = nil
		}
		if c.pframe != "" {
			s.violation("c14:panic:"+c.pframe, c.pmsg)
			return
		}
		var got []string
		for _, b := range s.in.takeEndMarkers() {
			got = append(got, decodeEndMarker(b).String())
		}
		var want []string
		loose := false
		if c.req.Kind == kMod && c.accepted && s.in.cfg.EndMarker {
			seen := map[uint32]sFAR{}
			for k, v := range st.pre {
				seen[k] = v
			}
			for _, u := range c.req.UpdateFAR {
				old, ok := seen[u.ID]
				if ok && u.SMFlags != nil && *u.SMFlags&0x02 != 0 {
					if old.OHCIP == "" || old.Action&ActionForward == 0 {
						loose = true // the rule had no tunnel before the update: the statement does not say what to emit
					} else {
						src := vN3Addr
						if old.HasDst && old.Dst != ie.DstInterfaceAccess {
							src = vN6Addr
						}
						want = append(want, emPacket{Src: src, Dst: old.OHCIP, SPort: 2152, DPort: 2152, TEID: old.OHCTEID, MsgType: 254}.String())
					}
				}
				if ok {
					seen[u.ID] = u // a second Update FAR of the same rule in one message sees the first one's tunnel
				}
			}
		}
		s.res.outcome(fmt.Sprintf("markers=%d", len(got)))
		if loose {
			return
		}
		sort.Strings(got)
		sort.Strings(want)
		if vJSON(got) != vJSON(want) {
			cls := "wrong-packet"
			switch {
			case len(got) > len(want):
				cls = "extra"
			case len(got) < len(want):
				cls = "missing"
			}
			s.violation("c14:"+cls+":"+c.req.Label, fmt.Sprintf("%s: emitted %v, expected %v", c.req.Label, got, want))
			return
		}
		if s.emEarly > 0 {
			s.violation("c14:before-programming:"+c.req.Label, "an end marker was queued before the datapath update of the same request was issued")
		}
	}
	return
}

type c14Scenario struct {
	Name string `json:"name"`
	Cfg  vCfg   `json:"cfg"`
}

func TestVerifC14(t *testing.T) {
	vQuietLoggers()
	res := vNewResult()
	defer res.write(t)
	res.Rule = "BFS over chains (depth 5 quick / 6 thorough incl. association and establishment) of Session Modifications with 1-2 Update FARs over flag {SNDEM, 0, SNDEM together with other bits, absent, other bits} x " +
		"tunnel {peer A, peer B, unchanged} x FAR {known, unknown, second downlink FAR} on sessions established with 2 peers x 2 TEIDs (+ the two downlink FARs carrying the same TEID value towards different peers), plus buffer updates, creations with the flag and " +
		"unknown sessions; end markers enabled and disabled; packets taken from the plug-in's end-marker sink and decoded. distinct_nontrivial = distinct canonical states reached"
	res.Assumptions = []string{"BESS: packets are observed on the channel that feeds the unixpacket socket (endMarkerSendLoop only copies them)", "an update of a rule that had no tunnel before is not constrained by the statement"}
	depth := 5
	if vEnv.Thorough {
		depth = 6
	}
	scs := []c14Scenario{
		{"bess-endmarker-on", vCfg{NConns: 1, EndMarker: true}},
		{"bess-endmarker-off", vCfg{NConns: 1, EndMarker: false}},
	}
	mk := func(ex *seqExplorer, sc c14Scenario) func() seqSys {
		return func() seqSys {
			st := &c14State{}
			pre, post := c14Oracle(st)
			s := newSessSys(ex, res, sc.Cfg, c14Alphabet, post)
			s.afterRefusal = true
			s.preStep = pre
			s.poisonOnViolation = true
			return s
		}
	}
	if rc := vReplayCase(); rc != nil {
		var c seqCase
		json.Unmarshal(rc, &c)
		var sc c14Scenario
		json.Unmarshal(c.Scenario, &sc)
		ex := &seqExplorer{res: res, scenario: sc}
		ex.mk = mk(ex, sc)
		ex.replay(c)
		return
	}
	item := 0
	for _, sc := range scs {
		sc := sc
		// shard by the establishment variant (second operation)
		for r := 0; r < 6; r++ { // 2 peers x (2 TEIDs + one variant with equal TEIDs)
			r := r
			if vMine(item) {
				ex := &seqExplorer{res: res, scenario: sc, depth: depth}
				ex.mk = mk(ex, sc)
				ex.prefixFilter = func(h []seqOp, i int) bool { return len(h) != 1 || i == r }
				ex.explore(nil)
				res.Distinct += ex.stats.States
			}
			item++
		}
	}
	res.Extra["bfs_depth"] = depth
	res.sample(map[string]any{"scenario": "bess-endmarker-on", "history": []string{"assoc", "est-peer0-teid1001", "ufar2-t1-f0", "ufar2+3-flag", "ufar2-t2-f0"}})
}
