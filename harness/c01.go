//go:build verif

// C01 - no PFCP datagram can crash or wedge the agent. Engine SEQ + ENUM: a BFS over association/session histories
// yields the reachable states; in every distinct state every IE-level mutant of every dispatched message type is
// injected through the real HandlePFCPMsg, and (in a representative state) the byte-level neighbourhood.
package pfcpiface

import (
	"encoding/json"
	"fmt"
	"net"
	"strings"
	"testing"
	"time"

	"github.com/wmnsk/go-pfcp/ie"
	"github.com/wmnsk/go-pfcp/message"
)

// ---------------------------------------------------------------------------------------------- mutation operators

type c01Mut struct {
	Path []int  `json:"path"` // indices from the message's top-level IE list down to the mutated IE
	Op   string `json:"op"`
	Arg  string `json:"arg,omitempty"`
}

func c01Node(m *vMsg, path []int) (parent *[]*vIE, idx int) {
	list := &m.IEs
	for d, i := range path {
		if d == len(path)-1 {
			return list, i
		}
		list = &(*list)[i].Kids
	}
	return nil, -1
}

var c01V6 = net.ParseIP("2001:db8::1")

// c01V6Only returns the IPv6-only form of an address-carrying IE (nil if the type carries no address).
func c01V6Only(t uint16) *vIE {
	switch t {
	case ie.FSEID:
		return vFromIE(ie.NewFSEID(0x1122, nil, c01V6))
	case ie.FTEID:
		return vFromIE(ie.NewFTEID(0x02, 0x55, nil, c01V6, 0))
	case ie.UEIPAddress:
		return vFromIE(ie.NewUEIPAddress(0x01, "", "2001:db8::2", 0, 0))
	case ie.OuterHeaderCreation:
		return vFromIE(ie.NewOuterHeaderCreation(0x0200, 0x66, "", "2001:db8::3", 0, 0, 0))
	case ie.NodeID:
		return vFromIE(ie.NewNodeID("", "2001:db8::4", ""))
	}
	return nil
}

func c01FlowVariants(desc string) []string {
	toks := strings.Fields(desc)
	var out []string
	for i := 0; i <= len(toks); i++ {
		out = append(out, strings.Join(toks[:i], " "))
	}
	out = append(out,
		"permit out ip from 2001:db8::/32 to assigned",
		"permit out ip from any to 2001:db8::1",
		"permit out ip from 10.0.0.0/8 to",
		"permit out ip from",
		"permit out ip to",
		"permit out ip from 10.0.0.1 to assigned 70000",
		"permit out ip from 10.0.0.1 9-3 to assigned",
		"permit out ip from 10.0.0.1/33 to assigned",
		"permit out ip from from from",
		"permit out ip to to",
		"allow sideways ip from any to any",
		// legal, at the edges of the port space (the BESS plug-in expands small ranges port by port, in goroutines of its own)
		"permit out udp from any 65530-65535 to assigned",
		"permit out udp from any 0-5 to assigned",
		"permit out tcp from any 65535 to assigned 65535",
		"permit out udp from 10.0.0.1 1-200 to assigned",
		"permit out udp from any 65436-65535 to assigned",
		strings.Repeat("from any to ", 40),
	)
	return out
}

var c01Causes = []int{0, 2, 64, 65, 66, 67, 68, 69, 70, 71, 72, 73, 74, 75, 76, 77, 78, 79, 80, 255}

// c01Mutations enumerates every single mutation of the message.
func c01Mutations(m *vMsg) []c01Mut {
	var out []c01Mut
	var walk func(list []*vIE, path []int)
	walk = func(list []*vIE, path []int) {
		for i, n := range list {
			p := append(append([]int{}, path...), i)
			out = append(out, c01Mut{Path: p, Op: "drop"}, c01Mut{Path: p, Op: "dup"}, c01Mut{Path: p, Op: "empty"},
				c01Mut{Path: p, Op: "trunc", Arg: "1"}, c01Mut{Path: p, Op: "trunc", Arg: "-1"}, c01Mut{Path: p, Op: "pad"}, c01Mut{Path: p, Op: "pad0"})
			for _, t := range []string{"0", "19", "57", "60", "65535", "sibling"} {
				out = append(out, c01Mut{Path: p, Op: "retype", Arg: t})
			}
			if c01V6Only(n.T) != nil {
				out = append(out, c01Mut{Path: p, Op: "v6only"})
			}
			if n.T == ie.NodeID {
				// legal and odd Node IDs: FQDN, FQDN whose labels are not valid UTF-8, IPv6, unknown type, FQDN with a label
				// length running past the end
				for _, k := range []string{"fqdn", "fqdn-bad-utf8", "ipv6", "type7", "fqdn-overrun", "fqdn-empty"} {
					out = append(out, c01Mut{Path: p, Op: "nodeid", Arg: k})
				}
			}
			if n.T == ie.Cause {
				// every cause value TS 29.244 defines (and the ends of the octet): a response may carry any of them
				for _, v := range c01Causes {
					out = append(out, c01Mut{Path: p, Op: "cause", Arg: fmt.Sprint(v)})
				}
			}
			if n.T == ie.SDFFilter || n.T == ie.PFDContents {
				for k := range c01FlowVariants("permit out udp from 10.1.0.0/16 80 to assigned 1000-2000") {
					out = append(out, c01Mut{Path: p, Op: "flow", Arg: fmt.Sprint(k)})
				}
			}
			if n.Grp {
				walk(n.Kids, p)
				out = append(out, c01Mut{Path: p, Op: "shuffle"})
			}
		}
	}
	walk(m.IEs, nil)
	out = append(out, c01Mut{Op: "hdr-noseid"}, c01Mut{Op: "hdr-seid"}, c01Mut{Op: "hdr-len", Arg: "+1"}, c01Mut{Op: "hdr-len", Arg: "-1"}, c01Mut{Op: "shuffle-top"}, c01Mut{Op: "no-ies"})
	return out
}

// c01Apply returns the bytes of the mutated message.
func c01Apply(base *vMsg, mu c01Mut) []byte {
	m := base.clone()
	switch mu.Op {
	case "hdr-noseid":
		m.S = false
		return m.marshal()
	case "hdr-seid":
		m.S = true
		return m.marshal()
	case "hdr-len":
		b := m.marshal()
		n := int(b[2])<<8 | int(b[3])
		if mu.Arg == "+1" {
			n++
		} else {
			n--
		}
		b[2], b[3] = byte(n>>8), byte(n)
		return b
	case "shuffle-top":
		for i, j := 0, len(m.IEs)-1; i < j; i, j = i+1, j-1 {
			m.IEs[i], m.IEs[j] = m.IEs[j], m.IEs[i]
		}
		return m.marshal()
	case "no-ies":
		m.IEs = nil
		return m.marshal()
	}
	list, i := c01Node(m, mu.Path)
	n := (*list)[i]
	switch mu.Op {
	case "drop":
		*list = append((*list)[:i:i], (*list)[i+1:]...)
	case "dup":
		cp := n.clone()
		rest := append([]*vIE{cp}, (*list)[i+1:]...)
		*list = append((*list)[:i+1:i+1], rest...)
	case "empty":
		n.P, n.Kids = nil, nil
	case "trunc":
		if n.Grp {
			b := n.marshal()[4:]
			n.Grp, n.Kids = false, nil
			n.P = b
		}
		if mu.Arg == "1" {
			if len(n.P) > 1 {
				n.P = n.P[:1]
			}
		} else if len(n.P) > 0 {
			n.P = n.P[:len(n.P)-1]
		}
	case "pad":
		if n.Grp {
			n.Kids = append(n.Kids, &vIE{T: 0x7FFF, P: []byte{1, 2, 3}})
		} else {
			n.P = append(n.P, 0xFF, 0xFF, 0xFF, 0xFF, 0xFF, 0xFF, 0xFF, 0xFF, 0xFF, 0xFF, 0xFF, 0xFF, 0xFF, 0xFF, 0xFF, 0xFF, 0xFF)
		}
	case "pad0":
		// one trailing NUL: a C-string spelling of a text IE (Application ID, Network Instance), one spare octet elsewhere
		if n.Grp {
			n.Kids = append(n.Kids, &vIE{T: 0, P: nil})
		} else {
			n.P = append(n.P, 0x00)
		}
	case "cause":
		var v int
		fmt.Sscan(mu.Arg, &v)
		n.P = []byte{byte(v)}
	case "retype":
		if mu.Arg == "sibling" {
			j := (i + 1) % len(*list)
			n.T = (*list)[j].T
		} else {
			var t int
			fmt.Sscan(mu.Arg, &t)
			n.T = uint16(t)
		}
	case "v6only":
		(*list)[i] = c01V6Only(n.T)
	case "nodeid":
		pl := map[string][]byte{
			"fqdn":          append([]byte{0x02, 0x03}, []byte("smf\x07example\x03org")...),
			"fqdn-bad-utf8": {0x02, 0x03, 0xff, 0xfe, 0xfd, 0x02, 0xc0, 0xaf},
			"ipv6":          append([]byte{0x01}, net.ParseIP("2001:db8::1").To16()...),
			"type7":         {0x07, 1, 2, 3, 4},
			"fqdn-overrun":  {0x02, 0x20, 'a', 'b'},
			"fqdn-empty":    {0x02},
		}[mu.Arg]
		(*list)[i] = &vIE{T: ie.NodeID, P: pl}
	case "flow":
		var k int
		fmt.Sscan(mu.Arg, &k)
		d := c01FlowVariants("permit out udp from 10.1.0.0/16 80 to assigned 1000-2000")[k]
		if n.T == ie.SDFFilter {
			(*list)[i] = vFromIE(ie.NewSDFFilter(d, "", "", "", 0))
			if d == "" {
				(*list)[i] = &vIE{T: ie.SDFFilter, P: []byte{0x01, 0x00, 0x00, 0x00}}
			}
		} else {
			(*list)[i] = vFromIE(ie.NewPFDContents(d, "", "", "", "", nil, nil, nil))
		}
	case "shuffle":
		for a, b := 0, len(n.Kids)-1; a < b; a, b = a+1, b-1 {
			n.Kids[a], n.Kids[b] = n.Kids[b], n.Kids[a]
		}
	}
	return m.marshal()
}

// ---------------------------------------------------------------------------------------------- states and corpus

func c01Alphabet(s *sessSys) []sessReq {
	var out []sessReq
	add := func(label string, r sessReq) {
		r.Label = label
		out = append(out, r)
	}
	for c := 0; c < len(s.in.conns); c++ {
		if s.m.Gone[c] || s.m.Assoc[c] == "" {
			add("assoc", sessReq{sReq: sReq{Kind: kAssoc, Conn: c}})
			continue
		}
		if c == 0 {
			if s.m.PFD[c] == nil {
				add("pfd", sessReq{sReq: sReq{Kind: kPFD, Conn: c, PFDs: []sPFD{{App: "app1", Flows: []string{"permit out ip from 10.1.0.0/16 to assigned", "permit in udp from any 53 to assigned"}}}}})
			}
			if len(s.m.live(c)) < 2 {
				n := len(s.m.Sess)
				p, f, q := rsBasic(fmt.Sprintf("16.0.0.%d", n+1), uint32(0x100+n), "11.1.1.129")
				add("est-basic", sessReq{sReq: sReq{Kind: kEst, Conn: c, CPSEID: uint64(10 + n), CreatePDR: p, CreateFAR: f, CreateQER: q}})
				if c == 0 {
					// a session with a session-wide QER (two QERs shared by all PDRs): the modifications of the corpus then meet it
					p2, f2, q2 := rsBasic(fmt.Sprintf("16.0.0.%d", n+1), uint32(0x100+n), "11.1.1.129")
					p2[0].QERs, p2[1].QERs = []uint32{1, 4}, []uint32{1, 4}
					q2 = append(q2, sQER{ID: 4, QFI: 5, MBRUL: 900000, MBRDL: 900000})
					add("est-2qer", sessReq{sReq: sReq{Kind: kEst, Conn: c, CPSEID: uint64(10 + n), CreatePDR: p2, CreateFAR: f2, CreateQER: q2}})
				}
				if s.in.cfg.UEIPAlloc {
					p5, f5, q5 := rsChoose()
					add("est-choose", sessReq{sReq: sReq{Kind: kEst, Conn: c, CPSEID: uint64(10 + n), CreatePDR: p5, CreateFAR: f5, CreateQER: q5}})
				}
			}
			for _, x := range s.m.live(c) {
				add("del", sessReq{sReq: sReq{Kind: kDel, Conn: c}, Sess: x.Idx})
				if p1 := x.pdr(1); p1 != nil && x.pdr(8) == nil && !s.in.cfg.P4 {
					// a session one of whose rules was added by a modification that asked the UP to choose the tunnel endpoint
					add("mod-create-choose-pdr", sessReq{sReq: sReq{Kind: kMod, Conn: c, CreatePDR: []sPDR{{ID: 8, Prec: 90, Src: ie.SrcInterfaceAccess, FTEID: &sFTEID{Choose: true}, UEIP: p1.UEIP, Decap: true, FAR: 1, QERs: p1.QERs}}}, Sess: x.Idx})
				}
			}
			add("release", sessReq{sReq: sReq{Kind: kRel, Conn: c}})
		}
	}
	return out
}

// c01Corpus: one rich, well-formed instance of every message type the agent dispatches, adapted to the state.
func c01Corpus(s *sessSys) []sessReq {
	sessIdx := -1
	if l := s.m.live(0); len(l) > 0 {
		sessIdx = l[0].Idx
	}
	p, f, q := rsBasic("16.0.7.7", 0x777, "11.1.1.129")
	p[0].QERs, p[1].QERs = []uint32{1, 4}, []uint32{1, 4}
	p = append(p, sdfPDRs(3, "16.0.7.7", 0x777, 50, "permit out udp from 10.1.0.0/16 80 to assigned", 1, 2, []uint32{1})...)
	p = append(p, sPDR{ID: 5, Prec: 60, Src: ie.SrcInterfaceAccess, FTEID: &sFTEID{Choose: true}, UEIP: "16.0.7.7", App: "app1", Decap: true, FAR: 1})
	if s.in.cfg.UEIPAlloc {
		p = append(p, sPDR{ID: 6, Prec: 60, Src: ie.SrcInterfaceCore, UEAlloc: true, FAR: 2})
	}
	q = append(q, sQER{ID: 4, QFI: 5, MBRUL: 5000, MBRDL: 5000, HasGBR: true, GBRUL: 100, GBRDL: 100})
	em := uint8(0x02)
	// (the created PDRs list only the QER created with them: a PDR that does not reference the session-wide QER)
	np := sdfPDRs(7, "16.0.7.7", 0x777, 40, "permit out tcp from 10.9.0.0/16 443 to assigned", 1, 2, []uint32{9})
	mod := sReq{Kind: kMod, Conn: 0, HasCP: true, CPSEID: 0x55,
		CreatePDR: np, CreateFAR: []sFAR{{ID: 9, Action: ActionDrop}}, CreateQER: []sQER{{ID: 9, QFI: 9, MBRUL: 1, MBRDL: 1}},
		UpdatePDR: []sPDR{p[0]},
		UpdateFAR: []sFAR{{ID: 2, Action: ActionForward, HasFwd: true, HasDst: true, Dst: ie.DstInterfaceAccess, OHCIP: "11.1.1.140", OHCTEID: 0x7777, SMFlags: &em}},
		UpdateQER: []sQER{q[0]}, RemovePDR: []uint16{7}, RemoveFAR: []uint32{9}, RemoveQER: []uint32{9}}
	return []sessReq{
		{sReq: sReq{Kind: kAssoc, Conn: 0}, Label: "assoc"},
		{sReq: sReq{Kind: kHB, Conn: 0}, Label: "hb"},
		{sReq: sReq{Kind: kPFD, Conn: 0, PFDs: []sPFD{{App: "app1", Flows: []string{"permit out ip from 10.1.0.0/16 to assigned", "permit in udp from any 53 to assigned"}}, {App: "app2", Flows: []string{"permit out tcp from 10.2.0.0/16 8080 to assigned"}}}}, Label: "pfd"},
		{sReq: sReq{Kind: kEst, Conn: 0, CPSEID: 0x77, CreatePDR: p, CreateFAR: f, CreateQER: q}, Label: "est"},
		{sReq: mod, Sess: sessIdx, Label: "mod"},
		// the smallest modification both plug-ins accept: one Update FAR that moves the tunnel, with the SNDEM flag set
		// whether or not end markers are enabled (a peer may set it regardless of what the agent advertised)
		{sReq: sReq{Kind: kMod, Conn: 0, UpdateFAR: []sFAR{{ID: 2, Action: ActionForward, HasFwd: true, HasDst: true, Dst: ie.DstInterfaceAccess, OHCIP: "11.1.1.141", OHCTEID: 0x7778, SMFlags: &em}}}, Sess: sessIdx, Label: "mod-ufar-sndem"},
		{sReq: sReq{Kind: kDel, Conn: 0}, Sess: sessIdx, Label: "del"},
		{sReq: sReq{Kind: kRel, Conn: 0}, Label: "release"},
		{sReq: sReq{Kind: kSRR, Conn: 0, Cause: ie.CauseRequestAccepted}, Sess: sessIdx, Label: "srr-accepted"},
		{sReq: sReq{Kind: kSRR, Conn: 0, Cause: ie.CauseSessionContextNotFound}, Sess: sessIdx, Label: "srr-notfound"},
		{sReq: sReq{Kind: "raw", Conn: 0}, RawType: message.MsgTypeHeartbeatResponse, Label: "raw-hbresp"},
		{sReq: sReq{Kind: "raw", Conn: 0}, RawType: message.MsgTypeAssociationSetupResponse, Label: "raw-assocresp"},
		{sReq: sReq{Kind: "raw", Conn: 0}, RawType: message.MsgTypeSessionReportRequest, Label: "raw-unsupported-srreq"},
		{sReq: sReq{Kind: "raw", Conn: 0}, RawType: message.MsgTypeSessionSetDeletionRequest, Label: "raw-unsupported-ssdel"},
		{sReq: sReq{Kind: "raw", Conn: 0}, RawType: 99, Label: "raw-unknown-type"},
	}
}

func (s *sessSys) buildBase(r *sessReq) *vMsg {
	c := s.in.conns[r.Conn]
	req := r.sReq
	req.Seq = 0x4242
	switch r.Kind {
	case kMod, kDel, kSRR:
		req.SEID = vUnknownSEID
		if r.Sess >= 0 && r.Sess < len(s.m.Sess) {
			req.SEID = s.m.Sess[r.Sess].UPSEID
		}
	case "raw":
		m := &vMsg{Type: r.RawType, Seq: req.Seq}
		switch r.RawType {
		case message.MsgTypeHeartbeatResponse:
			m.IEs = []*vIE{vFromIE(ie.NewRecoveryTimeStamp(c.pc.ts.local))}
		case message.MsgTypeAssociationSetupResponse:
			m.IEs = []*vIE{vNodeIDIE(c.node), vFromIE(ie.NewCause(ie.CauseRequestAccepted)), vFromIE(ie.NewRecoveryTimeStamp(c.pc.ts.local))}
		case message.MsgTypeSessionReportRequest, message.MsgTypeSessionSetDeletionRequest:
			m.S = true
			m.IEs = []*vIE{vNodeIDIE(c.node)}
		}
		return m
	}
	return req.build(c)
}

type c01Case struct {
	Scenario json.RawMessage `json:"scenario"`
	History  []seqOp         `json:"history"`
	Base     string          `json:"base,omitempty"`
	Mut      *c01Mut         `json:"mut,omitempty"`
	Mut2     *c01Mut         `json:"mut2,omitempty"`
	Bytes    []byte          `json:"bytes,omitempty"`
}

type c01Runner struct {
	res  *vResult
	ex   *seqExplorer
	hist []seqOp
	sys  *sessSys
	key  string
}

func (r *c01Runner) rebuild() {
	if r.sys != nil {
		r.sys.close()
	}
	saved := append([]seqOp{}, r.hist...)
	r.sys = r.ex.runHistory(saved).(*sessSys)
	r.key = r.sys.key()
}

// probe sends a valid Heartbeat Request on connection c and demands the answer.
func (r *c01Runner) probe(c int) bool {
	if r.sys.m.Gone[c] || r.sys.in.conns[c].sock.isClosed() {
		return true // the association ended (release): a new PFCPConn would be created by the node
	}
	m := (&sReq{Kind: kHB, Conn: c, Seq: 0x123456}).build(r.sys.in.conns[c])
	out, fr, _ := r.sys.in.inject(c, m.marshal())
	if fr != "" || len(out) != 1 {
		return false
	}
	d, err := vDecode(out[0])
	return err == nil && d.Type == message.MsgTypeHeartbeatResponse && d.Seq == 0x123456
}

// fire injects one datagram in the current state and evaluates the C01 oracle. label names the case class.
func (r *c01Runner) fire(label string, b []byte, cs c01Case) {
	cs.Scenario, cs.History = r.ex.scenarioJSON(), append([]seqOp{}, r.hist...)
	r.res.journal(cs)
	r.res.Evaluations++
	if r.sys.m.Gone[0] || r.sys.in.conns[0].sock.isClosed() {
		// the association ended: its reader goroutine is gone and the datagram reaches the node socket, which creates a
		// new PFCPConn for it (node.go handleNewPeers). The harness does the same and takes that as the state.
		r.sys.in.addConn(0)
		r.sys.m.Gone[0], r.sys.m.Assoc[0], r.sys.m.PFD[0] = false, "", nil
		r.key = r.sys.key()
	}
	out, fr, msg := r.sys.in.inject(0, b)
	switch {
	case fr == "WEDGE":
		r.res.finding("c01:wedge:"+label, "handler did not return: "+msg, cs)
		r.sys = nil // the goroutine is stuck inside the instance: abandon it
		r.rebuild()
		return
	case fr != "":
		r.res.finding("c01:panic:"+fr, fmt.Sprintf("%s: panic in %s: %s", label, fr, msg), cs)
		r.rebuild()
		return
	case len(out) > 1:
		r.res.finding("c01:multi-response:"+label, fmt.Sprintf("%d datagrams written for one injected datagram", len(out)), cs)
	}
	r.res.outcome(fmt.Sprintf("answered=%d", len(out)))
	if l := vLeakedLock(r.sys.in.u); l != "" {
		r.res.finding("c01:lock-held-after:"+label+":"+l, l+" is still held after the handler returned: the next request that needs it blocks the receive loop for good", cs)
		r.rebuild()
		return
	}
	for c := range r.sys.in.conns {
		if !r.probe(c) {
			r.res.finding(fmt.Sprintf("c01:dead-after:%s:conn%d", label, c), "a valid Heartbeat Request after the datagram was not answered on association "+fmt.Sprint(c), cs)
			r.rebuild()
			return
		}
	}
	// same state => same futures (the BFS explores them); otherwise restore the state for the next case
	r.sys.syncAfterRaw()
	if k := r.sys.key(); k != r.key {
		r.rebuild()
	}
}

// syncAfterRaw reconciles the model with what a raw (mutated) datagram did, as far as the key needs it: sessions the
// agent no longer stores are dead, associations whose socket closed are gone.
func (s *sessSys) syncAfterRaw() {
	for i, c := range s.in.conns {
		if c.sock.isClosed() {
			s.m.Gone[i] = true
		}
	}
}

type c01Scenario struct {
	Name string `json:"name"`
	Cfg  vCfg   `json:"cfg"`
}

func TestVerifC01(t *testing.T) {
	vQuietLoggers()
	// C01 sends flow descriptions the BESS plug-in cannot expand (its goroutine then never reports back and the request is
	// answered after the join time-out): keep the repository's own 1 s there. Nothing in C01 reads the tables while
	// entries may still be arriving - a state whose key changed is rebuilt.
	Timeout = time.Second
	res := vNewResult()
	defer res.write(t)
	res.Rule = "states = BFS (depth 3 quick / 4 thorough) over association, PFD, establishment (basic / CHOOSE+UE-IP), deletion, release on 2 associations, with UE-IP allocation on and off; " +
		"in every distinct state every single IE-level mutation (drop, duplicate, empty, truncate, pad with 17 x 0xFF, pad with one NUL, every defined cause value in a Cause IE, retype x6, IPv6-only, flow-description truncations and malformed texts, " +
		"reversed order, header S flag / length) at every IE position of every nesting level of one rich message per dispatched type (+ response and unsupported types) is injected " +
		"through the real HandlePFCPMsg (thorough: all pairs of top-level mutations); byte level in a state with a live session: every truncation, 12 byte values per position, all " +
		"strings of length <= 2. distinct_nontrivial = distinct (state, message, mutation) and byte cases executed"
	res.Assumptions = []string{"a handler that does not return within 90 s is wedged (no such case is expected; the bound is not an oracle for anything else)",
		"panics in goroutines spawned by the code under test kill the worker and are attributed through the journal"}
	depth := 3
	if vEnv.Thorough {
		depth = 4
	}
	scs := []c01Scenario{
		{"bess-uealloc", vCfg{NConns: 2, UEIPAlloc: true, Pool: "10.250.0.0/28"}},
		{"bess-nopool", vCfg{NConns: 2}},
		// the UP4 plug-in has parsers, checks and channels of its own (end markers disabled: nobody reads that channel)
		{"up4", vCfg{NConns: 2, P4: true, P4Conf: &vP4Cfg{DefaultTC: 3}}},
	}
	mk := func(ex *seqExplorer, sc c01Scenario) func() seqSys {
		return func() seqSys { return newSessSys(ex, res, sc.Cfg, c01Alphabet) }
	}
	if rc := vReplayCase(); rc != nil {
		var cs c01Case
		json.Unmarshal(rc, &cs)
		var sc c01Scenario
		json.Unmarshal(cs.Scenario, &sc)
		ex := &seqExplorer{res: res, scenario: sc}
		ex.mk = mk(ex, sc)
		r := &c01Runner{res: res, ex: ex, hist: cs.History}
		r.rebuild()
		b := cs.Bytes
		if cs.Mut != nil {
			for _, base := range c01Corpus(r.sys) {
				if base.Label == cs.Base {
					m := r.sys.buildBase(&base)
					b = c01Apply(m, *cs.Mut)
					if cs.Mut2 != nil {
						b = c01ApplyTwo(m, *cs.Mut, *cs.Mut2)
					}
				}
			}
		}
		r.fire("replay", b, cs)
		r.sys.close()
		return
	}
	type stateRec struct {
		sc   c01Scenario
		hist []seqOp
	}
	var states []stateRec
	for _, sc := range scs {
		sc := sc
		ex := &seqExplorer{res: &vResult{Extra: map[string]any{}, seenSig: map[string]bool{}, distinct: map[uint64]struct{}{}, Outcomes: map[string]int{}, deadline: res.deadline}, scenario: sc, depth: depth}
		ex.mk = func() seqSys { return newSessSys(ex, ex.res, sc.Cfg, c01Alphabet) }
		ex.onState = func(sys seqSys, h []seqOp) { states = append(states, stateRec{sc, append([]seqOp{}, h...)}) }
		ex.explore(nil)
		res.States += ex.stats.States
		res.Transitions += ex.stats.Edges
	}
	res.Extra["states_enumerated"] = len(states)
	// work items: (state, base message); every worker enumerates the same list and takes its share
	item := 0
	for si, st := range states {
		ex := &seqExplorer{res: res, scenario: st.sc}
		ex.mk = mk(ex, st.sc)
		var r *c01Runner
		ncorp := 14
		for bi := 0; bi < ncorp; bi++ {
			item++
			if !vMine(item) {
				continue
			}
			if res.expired() {
				return
			}
			if r == nil {
				r = &c01Runner{res: res, ex: ex, hist: st.hist}
				r.rebuild()
			}
			corpus := c01Corpus(r.sys)
			base := corpus[bi]
			m := r.sys.buildBase(&base)
			muts := c01Mutations(m)
			r.fire("valid-"+base.Label, m.marshal(), c01Case{Base: base.Label, Mut: &c01Mut{Op: "none"}})
			for mi := range muts {
				mu := muts[mi]
				// rebuild the base against the current instance (SEIDs are per instance)
				m = r.sys.buildBase(&base)
				r.fire(base.Label+"/"+mu.Op, c01Apply(m, mu), c01Case{Base: base.Label, Mut: &mu})
				res.Distinct++
			}
			if vEnv.Thorough && si%4 == 1 {
				// all pairs of mutations whose first component is at the top level
				for a := range muts {
					if len(muts[a].Path) != 1 {
						continue
					}
					for b := range muts {
						if b == a || (muts[b].Op != "drop" && muts[b].Op != "empty" && muts[b].Op != "v6only" && muts[b].Op != "dup") {
							continue
						}
						m = r.sys.buildBase(&base)
						ma, mb := muts[a], muts[b]
						r.fire(base.Label+"/"+ma.Op+"+"+mb.Op, c01ApplyTwo(m, ma, mb), c01Case{Base: base.Label, Mut: &ma, Mut2: &mb})
						res.Distinct++
					}
				}
			}
		}
		if r != nil && r.sys != nil {
			r.sys.close()
		}
	}
	res.sample(map[string]any{"state": []string{"assoc", "pfd", "est-choose"}, "base": "est", "mutation": c01Mut{Path: []int{2, 2, 1}, Op: "v6only"}})
	res.sample(map[string]any{"state": []string{"assoc", "est-basic"}, "base": "mod", "mutation": c01Mut{Path: []int{3, 2, 3}, Op: "flow", Arg: "4"}})
	// ---- byte level, in the state (assoc, pfd, est-basic) of the first scenario
	c01Bytes(res, scs[0], mk)
}

// c01ApplyTwo applies two tree-level mutations; the one with the lexicographically larger path goes first so that
// the other path is still valid afterwards. Falls back to the first mutation alone when they do not compose.
func c01ApplyTwo(m *vMsg, a, b c01Mut) []byte {
	first, second := a, b
	if fmt.Sprint(a.Path) < fmt.Sprint(b.Path) {
		first, second = b, a
	}
	one := c01MutTree(m, first)
	if one == nil {
		return c01Apply(m, a)
	}
	if two := c01MutTree(one, second); two != nil {
		return two.marshal()
	}
	return one.marshal()
}

// c01MutTree applies a tree-level mutation and returns the mutated tree (nil when the path no longer exists).
func c01MutTree(m *vMsg, mu c01Mut) (out *vMsg) {
	defer func() {
		if recover() != nil {
			out = nil
		}
	}()
	if len(mu.Path) == 0 {
		return nil
	}
	c := m.clone()
	list, i := c01Node(c, mu.Path)
	if list == nil || i >= len(*list) {
		return nil
	}
	n := (*list)[i]
	switch mu.Op {
	case "drop":
		*list = append((*list)[:i:i], (*list)[i+1:]...)
	case "empty":
		n.P, n.Kids = nil, nil
	case "dup":
		cp := n.clone()
		rest := append([]*vIE{cp}, (*list)[i+1:]...)
		*list = append((*list)[:i+1:i+1], rest...)
	case "v6only":
		if v := c01V6Only(n.T); v != nil {
			(*list)[i] = v
		}
	default:
		return nil
	}
	return c
}

func c01Bytes(res *vResult, sc c01Scenario, mk func(*seqExplorer, c01Scenario) func() seqSys) {
	ex := &seqExplorer{res: res, scenario: sc}
	ex.mk = mk(ex, sc)
	probe := ex.mk().(*sessSys)
	var hist []seqOp
	for _, want := range []string{"assoc", "pfd", "est-basic"} {
		for _, op := range probe.ops() {
			var r sessReq
			json.Unmarshal(op.Arg, &r)
			if r.Label == want && r.Conn == 0 {
				probe.apply(op)
				hist = append(hist, op)
				break
			}
		}
	}
	probe.close()
	r := &c01Runner{res: res, ex: ex, hist: hist}
	r.rebuild()
	defer func() {
		if r.sys != nil {
			r.sys.close()
		}
	}()
	item := 0
	for _, base := range c01Corpus(r.sys) {
		b0 := r.sys.buildBase(&base).marshal()
		for i := 0; i <= len(b0); i++ {
			item++
			if !vMine(item) {
				continue
			}
			if res.expired() {
				return
			}
			b := r.sys.buildBase(&base).marshal()
			r.fire("bytes-trunc/"+base.Label, b[:i], c01Case{Bytes: b[:i]})
			res.Distinct++
			if i == len(b0) {
				continue
			}
			vals := []byte{0x00, 0xFF, b[i] + 1, b[i] - 1}
			for bit := 0; bit < 8; bit++ {
				vals = append(vals, b[i]^(1<<bit))
			}
			for _, v := range vals {
				if v == b[i] {
					continue
				}
				b = r.sys.buildBase(&base).marshal()
				b[i] = v
				r.fire("bytes-flip/"+base.Label, b, c01Case{Bytes: append([]byte{}, b...)})
				res.Distinct++
			}
		}
	}
	// all byte strings of length <= 2
	for v := -257; v < 65536; v++ {
		item++
		if !vMine(item) {
			continue
		}
		var b []byte
		switch {
		case v == -257:
			b = []byte{}
		case v < 0:
			b = []byte{byte(v + 256)}
		default:
			b = []byte{byte(v >> 8), byte(v)}
		}
		r.fire("bytes-short", b, c01Case{Bytes: b})
		res.Distinct++
	}
}
