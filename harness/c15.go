//go:build verif

// C15 - P4 datapath IDs stay exclusive and in their own pool under write failures. Engine SEQ with exhaustive fault
// positions: for every Write index k inside every faulted operation of a scenario family (four failure shapes), followed
// by further sessions that would receive any wrongly recycled ID; invariants evaluated after every step from the entries at
// the fake switch and from the five pools read in-package.
package pfcpiface

import (
	"strings"
	"encoding/json"
	"fmt"
	"sort"
	"testing"

	"github.com/wmnsk/go-pfcp/ie"
)

type c15Case struct {
	Ctx    string `json:"ctx"`
	Op     string `json:"op"`
	K      int    `json:"k"`
	Shape  string `json:"shape"`
	K2     int    `json:"k2"` // second fault (absolute index after the first), -1 = none
	Shape2 string `json:"shape2,omitempty"`
}

const (
	c15CtrSize  = 14
	c15AppSize  = 8 // cells 1..7
	c15SessSize = 5 // cells 1..4
)

func c15Cfg() vCfg {
	return vCfg{P4: true, NConns: 1, P4Conf: &vP4Cfg{DefaultTC: 3, CounterSize: c15CtrSize, MeterSize: 0}}
}

// c15Invariants evaluates exclusivity / no-reuse-while-live / no-migration from the switch entries and the pools.
func c15Invariants(s *sessSys) []up4Viol {
	var out []up4Viol
	bad := func(class, f string, a ...any) { out = append(out, up4Viol{class, fmt.Sprintf(f, a...)}) }
	fp, p4e := s.in.p4.fp, s.in.p4
	pools := p4e.pools()
	inPool := func(pool []uint64) map[uint64]bool {
		m := map[uint64]bool{}
		for _, v := range pool {
			m[v] = true
		}
		return m
	}
	ctrPool, amPool, smPool, peerPool, appPool := inPool(pools.Counters), inPool(pools.AppMeters), inPool(pools.SessMeters), inPool(pools.Peers), inPool(pools.Apps)
	// live owners: sessions of the model that were accepted and whose deletion was not accepted
	ueOf := map[uint64]*rSess{}
	teidOf := map[uint64]*rSess{}
	for _, x := range s.m.live(-1) {
		for _, p := range x.PDRs {
			if p.UE != 0 {
				ueOf[uint64(p.UE)] = x
			}
			if p.TEID != 0 {
				teidOf[uint64(p.TEID)] = x
			}
		}
	}
	ctrOwner := map[uint64]string{}
	amOwner, smOwner := map[uint64]*rSess{}, map[uint64]*rSess{}
	appRef, peerRef := map[uint64]bool{}, map[uint64]*rSess{}
	for _, t := range []string{"terminations_uplink", "terminations_downlink"} {
		for _, e := range fp.list(t) {
			x := ueOf[e.Match["ue_address"].Val]
			if x == nil {
				continue
			}
			who := fmt.Sprintf("%s[ue %s app %d]", t, vIPStr(uint32(e.Match["ue_address"].Val)), e.Match["app_id"].Val)
			c := e.Params["ctr_idx"]
			if o, dup := ctrOwner[c]; dup {
				bad("counter-two-owners", "counter cell %d is used by %s and %s", c, o, who)
			}
			ctrOwner[c] = who
			if ctrPool[c] {
				bad("counter-free-while-live", "counter cell %d is in the free pool while %s of a live session uses it", c, who)
			}
			if a := e.Params["app_meter_idx"]; a != 0 {
				if o := amOwner[a]; o != nil && o != x {
					bad("app-meter-two-owners", "application meter cell %d is used by sessions #%d and #%d", a, o.Idx, x.Idx)
				}
				amOwner[a] = x
				if amPool[a] {
					bad("app-meter-free-while-live", "application meter cell %d is in the free pool while a live session uses it", a)
				}
			}
			if a := e.Match["app_id"].Val; a != 0 {
				appRef[a] = true
				if appPool[a] {
					bad("app-id-free-while-live", "application id %d is in the free pool while a live session's terminations entry uses it", a)
				}
			}
		}
	}
	for _, e := range fp.list("sessions_downlink") {
		x := ueOf[e.Match["ue_address"].Val]
		if x == nil {
			continue
		}
		if c := e.Params["session_meter_idx"]; c != 0 {
			if o := smOwner[c]; o != nil && o != x {
				bad("session-meter-two-owners", "session meter cell %d is used by sessions #%d and #%d", c, o.Idx, x.Idx)
			}
			smOwner[c] = x
			if smPool[c] {
				bad("session-meter-free-while-live", "session meter cell %d is in the free pool while a live session uses it", c)
			}
		}
		if id, ok := e.Params["tunnel_peer_id"]; ok && e.Action == "set_session_downlink" && id != 0 {
			peerRef[id] = x
			if peerPool[id] {
				bad("tunnel-peer-free-while-live", "tunnel peer id %d is in the free pool while a live session forwards through it", id)
			}
		}
	}
	for _, e := range fp.list("sessions_uplink") {
		x := teidOf[e.Match["teid"].Val]
		if x == nil {
			continue
		}
		if c := e.Params["session_meter_idx"]; c != 0 {
			if o := smOwner[c]; o != nil && o != x {
				bad("session-meter-two-owners", "session meter cell %d is used by sessions #%d and #%d", c, o.Idx, x.Idx)
			}
			smOwner[c] = x
			if smPool[c] {
				bad("session-meter-free-while-live", "session meter cell %d is in the free pool while a live session uses it", c)
			}
		}
	}
	// one tunnel peer id / application id has one owner in the plug-in's bookkeeping, and an owned id is not free
	u := p4e.up4
	seenPeer := map[uint8]bool{}
	for params, pr := range u.tunnelPeerIDs {
		if seenPeer[pr.id] {
			bad("tunnel-peer-two-owners", "tunnel peer id %d is assigned to two GTP peers (one of them %s)", pr.id, vIPStr(params.tunnelIP4Dst))
		}
		seenPeer[pr.id] = true
		if peerPool[uint64(pr.id)] {
			bad("tunnel-peer-free-while-owned", "tunnel peer id %d is assigned to %s and in the free pool", pr.id, vIPStr(params.tunnelIP4Dst))
		}
	}
	seenAppID := map[uint8]bool{}
	for _, a := range u.applicationIDs {
		if seenAppID[a.id] {
			bad("app-id-two-owners", "application id %d is assigned to two filters", a.id)
		}
		seenAppID[a.id] = true
		if appPool[uint64(a.id)] {
			bad("app-id-free-while-owned", "application id %d is assigned to a filter and in the free pool", a.id)
		}
	}
	_ = peerRef
	// two applications entries with one id
	seenApp := map[uint64]string{}
	for _, e := range fp.list("applications") {
		id := e.Params["app_id"]
		if o, dup := seenApp[id]; dup && o != e.key {
			bad("app-id-two-owners", "application id %d is carried by two applications entries", id)
		}
		seenApp[id] = e.key
	}
	// every element of a pool lies in the pool's own range (no migration)
	rng := func(name string, pool []uint64, lo, hi uint64) {
		for _, v := range pool {
			if v < lo || v > hi {
				bad(name+"-pool-foreign-id", "%s pool holds %d, outside its range %d..%d", name, v, lo, hi)
			}
		}
	}
	rng("counter", pools.Counters, 0, c15CtrSize-1)
	rng("app-meter", pools.AppMeters, 1, c15AppSize-1)
	rng("session-meter", pools.SessMeters, 1, c15SessSize-1)
	rng("tunnel-peer", pools.Peers, 2, maxGTPTunnelPeerIDs+1)
	rng("application", pools.Apps, 1, maxApplicationIDs)
	dup := func(name string, pool []uint64) {
		m := map[uint64]bool{}
		for _, v := range pool {
			if m[v] {
				bad(name+"-pool-duplicate", "%s pool holds %d twice", name, v)
			}
			m[v] = true
		}
	}
	dup("tunnel-peer", pools.Peers)
	dup("application", pools.Apps)
	sort.Slice(out, func(i, j int) bool { return out[i].class < out[j].class })
	return out
}

type c15Op struct {
	name string
	mk   func(s *sessSys) *sessReq
}

func c15Est(n int, nq int, gnb string, sdf string) func(s *sessSys) *sessReq {
	return func(s *sessSys) *sessReq {
		ue := fmt.Sprintf("16.0.0.%d", n)
		p, f, q := up4RuleSet(ue, uint32(0x100+n), gnb, sdf, nq, 0)
		return &sessReq{sReq: sReq{Kind: kEst, Conn: 0, CPSEID: uint64(n), CreatePDR: p, CreateFAR: f, CreateQER: q}, Label: fmt.Sprintf("est%d", n)}
	}
}

// c15EstOneFiltered: like c15Est with a filter, but only the uplink rule carries it - the application filter then has
// exactly one user.
func c15EstOneFiltered(n int, nq int, gnb string, sdf string) func(s *sessSys) *sessReq {
	return func(s *sessSys) *sessReq {
		ue := fmt.Sprintf("16.0.0.%d", n)
		p, f, q := up4RuleSet(ue, uint32(0x100+n), gnb, sdf, nq, 0)
		var keep []sPDR
		for _, x := range p {
			if x.SDF != "" && x.Src == ie.SrcInterfaceCore {
				continue
			}
			keep = append(keep, x)
		}
		return &sessReq{sReq: sReq{Kind: kEst, Conn: 0, CPSEID: uint64(n), CreatePDR: keep, CreateFAR: f, CreateQER: q}, Label: fmt.Sprintf("est%d", n)}
	}
}

// sessByCP finds the model session created with CP SEID n (nil if it was never accepted or is dead)
func sessByCP(s *sessSys, n uint64) *rSess {
	for _, x := range s.m.live(-1) {
		if x.CPSEID == n {
			return x
		}
	}
	return nil
}

func c15Del(n uint64) func(s *sessSys) *sessReq {
	return func(s *sessSys) *sessReq {
		x := sessByCP(s, n)
		if x == nil {
			return nil
		}
		return &sessReq{sReq: sReq{Kind: kDel, Conn: 0}, Sess: x.Idx, Label: fmt.Sprintf("del%d", n)}
	}
}

func c15Mod(n uint64, gnb string) func(s *sessSys) *sessReq {
	return func(s *sessSys) *sessReq {
		x := sessByCP(s, n)
		if x == nil {
			return nil
		}
		return &sessReq{sReq: sReq{Kind: kMod, Conn: 0, UpdateFAR: []sFAR{{ID: 2, Action: ActionForward, HasFwd: true, HasDst: true, Dst: ie.DstInterfaceAccess, OHCIP: gnb, OHCTEID: 0x7001}}}, Sess: x.Idx, Label: fmt.Sprintf("mod%d", n)}
	}
}

var c15Contexts = map[string][]c15Op{
	// two sessions with application + session QER each: all four session meter cells are in use
	"two-2qer": {{"est1", c15Est(1, 2, c04Peers[0], "")}, {"est2", c15Est(2, 2, c04Peers[0], c04SDFs[0])}},
	// one session with two QERs: two session meter cells stay free
	"one-2qer": {{"est1", c15Est(1, 2, c04Peers[0], c04SDFs[0])}},
	// one session whose application filter is used by a single rule
	"one-filter-one-user": {{"est1", c15EstOneFiltered(1, 1, c04Peers[0], c04SDFs[0])}},
}

var c15Faulted = map[string]c15Op{
	"est-app-qer-new-peer-new-app": {"est3", c15Est(3, 1, c04Peers[1], c04SDFs[1])},
	"est-2qer":                     {"est3", c15Est(3, 2, c04Peers[1], "")},
	"est-shared-peer-shared-app":   {"est3", c15Est(3, 1, c04Peers[0], c04SDFs[0])},
	"est-no-qer":                   {"est3", c15Est(3, 0, c04Peers[0], "")},
	"mod-new-peer":                 {"mod1", c15Mod(1, c04Peers[1])},
	"mod-same-peer":                {"mod1", c15Mod(1, c04Peers[0])},
	"del":                          {"del1", c15Del(1)},
}

// (the control plane repeats a deletion that was rejected: "retry-del1" does nothing unless session 1 is still live)
var c15Followers = []c15Op{
	{"est4", c15Est(4, 1, c04Peers[1], "")}, {"retry-del1", c15Del(1)},
	{"est5", c15Est(5, 1, c04Peers[0], c04SDFs[1])}, {"del4", c15Del(4)}, {"del5", c15Del(5)},
	{"est6", c15Est(6, 2, c04Peers[1], c04SDFs[0])}, {"del6", c15Del(6)},
}

// c15Run executes one case; returns the number of writes the faulted operation issued and the number of all later writes.
func c15Run(res *vResult, cs c15Case) (nop, nafter int) {
	res.journal(cs)
	res.Evaluations++
	cfg := c15Cfg()
	in := newVInst(cfg)
	defer in.close()
	s := &sessSys{ex: &seqExplorer{res: res}, res: res, in: in, m: newRefAgent(1)}
	defer func() { res.Transitions += int64(s.steps); res.Traces++ }()
	fp := in.p4.fp
	lastFaulted := strings.SplitN(cs.Op, "-", 2)[0]
	step := func(op c15Op, faulted bool) bool {
		r := op.mk(s)
		if r == nil {
			return true
		}
		ctx := s.exec(r)
		if ctx.pframe != "" {
			res.finding("c15:panic:"+ctx.pframe, ctx.pmsg, cs)
			return false
		}
		if faulted && ctx.accepted && (r.Kind == kEst || r.Kind == kMod) {
			// was a write of this request failed?
			failedHere := false
			for _, w := range fp.log {
				if w.Idx >= ctx.cmd0 && w.Err != "" && (w.Err == "injected transport error" || w.Err == "injected p4 error" || w.Err == "applied, response lost" || w.Err == "injected UNKNOWN without details" || strings.HasPrefix(w.Err, "injected per-update refusal")) {
					failedHere = true
				}
			}
			if failedHere {
				res.finding("c15:accepted-despite-failed-write:"+r.Kind, fmt.Sprintf("%s: write %d failed (%s) but the request was accepted", cs.Op, cs.K, cs.Shape), cs)
			}
		}
		res.outcome(fmt.Sprintf("%s-accepted=%v", r.Kind, ctx.accepted))
		for _, w := range fp.log {
			if w.Idx >= ctx.cmd0 && w.Err != "" {
				lastFaulted = r.Kind // (with fault pairs the second fault may hit a follower)
			}
		}
		for _, v := range c15Invariants(s) {
			// the signature names the kind of the request a write of which failed last: the same class of damage done by
			// another kind of request is another finding
			res.finding("c15:"+v.class+":"+lastFaulted, fmt.Sprintf("%s (context %s, faulted op %s, write %d fails as %s; after %s)", v.desc, cs.Ctx, cs.Op, cs.K, cs.Shape, op.name), cs)
			return false
		}
		res.States++
		return true
	}
	// the served P4Info keeps the shipped meter sizes; shrink the pools in-package so that every cell is in use
	shrink(in.p4.up4)
	s.exec(&sessReq{sReq: sReq{Kind: kAssoc, Conn: 0}})
	for _, op := range c15Contexts[cs.Ctx] {
		if !step(op, false) {
			return
		}
	}
	w0 := in.p4.nwrites()
	if cs.K >= 0 {
		fp.mu.Lock()
		fp.faults[w0+cs.K] = fpFault{Shape: cs.Shape}
		if cs.K2 >= 0 {
			fp.faults[w0+cs.K2] = fpFault{Shape: cs.Shape2}
		}
		fp.mu.Unlock()
	}
	if !step(c15Faulted[cs.Op], true) {
		return in.p4.nwrites() - w0, 0
	}
	nop = in.p4.nwrites() - w0
	for _, op := range c15Followers {
		if !step(op, true) {
			break
		}
	}
	return nop, in.p4.nwrites() - w0 - nop
}

// shrink reduces the two meter-cell pools to their first cells (app: 1..7, session: 1..4) so that collisions are forced.
func shrink(u *UP4) {
	for _, v := range u.appMeterCellIDsPool.ToSlice() {
		if v.(uint32) >= c15AppSize {
			u.appMeterCellIDsPool.Remove(v)
		}
	}
	for _, v := range u.sessMeterCellIDsPool.ToSlice() {
		if v.(uint32) >= c15SessSize {
			u.sessMeterCellIDsPool.Remove(v)
		}
	}
}

func TestVerifC15(t *testing.T) {
	vQuietLoggers()
	res := vNewResult()
	defer res.write(t)
	res.Rule = "contexts {two sessions with application+session QER (all session meter cells in use), one such session} x faulted operation {establishment with app QER + new peer + new filter, with 2 QERs, " +
		"with shared peer and shared filter, without QER; Update FAR to a new gNB; deletion} x every Write index k of that operation x failure shape {transport error, per-update P4Runtime error, " +
		"applied-but-response-lost, UNKNOWN without details, last update of the batch refused while the others are applied}, each followed by 3 further establish/delete cycles (application QER, filter, 2 QERs) with a repetition of a rejected deletion after the first of them; thorough: additionally every pair (k1,k2) with k2 in the faulted operation or the " +
		"followers. Pools shrunk to counters 14, application cells 1..7, session cells 1..4 so that a wrongly recycled or migrated ID collides. distinct_nontrivial = fault cases executed"
	res.Assumptions = []string{"owners are attributed from switch entries by UE address / TEID of sessions that are live in the model (accepted and not successfully deleted)",
		"meter pools are shrunk in-package after the real initialisation (the P4Info keeps the shipped sizes)"}
	if rc := vReplayCase(); rc != nil {
		var cs c15Case
		json.Unmarshal(rc, &cs)
		c15Run(res, cs)
		return
	}
	shapes := []string{"transport", "p4err", "lost", "unknown-bare", "refuse-last"}
	item := 0
	var ctxs, ops []string
	for k := range c15Contexts {
		ctxs = append(ctxs, k)
	}
	for k := range c15Faulted {
		ops = append(ops, k)
	}
	sort.Strings(ctxs)
	sort.Strings(ops)
	for _, ctx := range ctxs {
		for _, op := range ops {
			nop, nafter := c15Run(&vResult{Extra: map[string]any{}, seenSig: map[string]bool{}, distinct: map[uint64]struct{}{}, Outcomes: map[string]int{}}, c15Case{Ctx: ctx, Op: op, K: -1, K2: -1})
			for k := 0; k < nop; k++ {
				for _, sh := range shapes {
					item++
					if vMine(item) && !res.expired() {
						c15Run(res, c15Case{Ctx: ctx, Op: op, K: k, Shape: sh, K2: -1})
						res.Distinct++
					}
					if !vEnv.Thorough {
						continue
					}
					for k2 := k + 1; k2 < nop+nafter; k2++ {
						for _, sh2 := range shapes[:2] {
							item++
							if vMine(item) && !res.expired() {
								c15Run(res, c15Case{Ctx: ctx, Op: op, K: k, Shape: sh, K2: k2, Shape2: sh2})
								res.Distinct++
							}
						}
					}
				}
			}
			res.addExtra("sum_fault_positions", int64(nop))
		}
	}
	res.sample(c15Case{Ctx: "two-2qer", Op: "est-app-qer-new-peer-new-app", K: 2, Shape: "p4err", K2: -1})
}
