//go:build verif && verifinstr

// C13 - downlink data notifications reach the control plane once per interval. Engine SCHED as a sequential
// virtual-time machine (canonical schedule): BFS over sequences of datapath reports and clock advances through both
// real event sources (bess.notifyListen on an in-memory unixpacket socket; UP4.listenToDDNs fed digests), the real
// notifier, reportNotifyChan, node.Serve and handleDigestReport; compared with refLimiter.
package pfcpiface

import (
	"encoding/binary"
	"encoding/json"
	"fmt"
	"testing"
	"time"

	"github.com/omec-project/upf-epc/pfcpiface/internal/verif/vnet"
	"github.com/omec-project/upf-epc/pfcpiface/internal/verif/vsched"
	"github.com/omec-project/upf-epc/pfcpiface/internal/verif/vtime"
	p4 "github.com/p4lang/p4runtime/go/p4/v1"
	"github.com/wmnsk/go-pfcp/ie"
	"github.com/wmnsk/go-pfcp/message"
	"google.golang.org/grpc"
)

const c13Interval = 20 * time.Second

type c13Ev struct {
	Kind string `json:"kind"` // report / advance
	Sess int    `json:"sess"` // 0 notifying buffer FAR, 1 forwarding FAR, 2 no downlink PDR, 3 unknown F-SEID
	D    int64  `json:"d"`    // advance in ns
}

type c13Case struct {
	P4      bool    `json:"p4"`
	History []c13Ev `json:"history"`
	// CPMoved: before the history the control plane moves sessions 0 and 1 to new CP F-SEIDs by Session Modification
	// (the notification must be addressed with the control plane's SEID as last signalled)
	CPMoved bool `json:"cpmoved,omitempty"`
	// Burst > 0: that many sessions (2 or 3) ask for notification, the channel between the datapath listener and the node
	// holds ONE report, and a "burst" event delivers one report per session back to back, before anybody has drained
	// anything: every one of them is a first report (or a full interval after the last one) and must reach the control plane
	Burst int `json:"burst,omitempty"`
	// Reassoc: before the history one report is delivered for the notifying session, the association is released, more than
	// one interval passes, the same peer associates afresh and establishes the same three sessions again: the history then
	// runs against the sessions of the second association
	Reassoc bool `json:"reassoc,omitempty"`
	// RefusedMod: before the history the control plane sends, for the notifying session, a Session Modification that repeats
	// its downlink PDR (Update PDR) and that the datapath refuses (UP4: its first write fails; BESS never refuses): the
	// session is unchanged and its reports must still be forwarded
	RefusedMod bool `json:"refusedmod,omitempty"`
}

var c13Advances = []int64{int64(c13Interval) - 1, 1, int64(c13Interval)}

// c13Run executes one history; returns what was sent to the peer per event and the model's expectations.
func c13Run(res *vResult, cs c13Case, ready *grpc.ClientConn) (viol, desc string, key string) {
	s := vsched.New(nil, 200000)
	type sessInfo struct {
		up, cp uint64
		ue     uint32
		dlPDR  uint16
	}
	var sess [4]sessInfo
	var prologueErr string
	lastFwd := map[int]time.Duration{} // model: virtual time of the last forwarded notification per session
	lastNote := map[int]time.Duration{}
	var now time.Duration
	usedSeq := map[uint32]bool{}
	var met interface{ Stop() error }
	var bessU *upf
	if !cs.P4 {
		vsched.S = nil
		bessU, _ = schedUPF(false, 100000*time.Second, ready)
		if cs.Burst > 0 {
			bessU.reportNotifyChan = make(chan uint64, 1)
		}
		defer func() {
			if b, ok := bessU.datapath.(*bess); ok && b.conn != nil {
				b.conn.Close()
			}
		}()
	}
	s.Run(func() {
		fab := vnet.NewFabric()
		var u *upf
		var notifySock *vnet.UnixSock
		var up *UP4
		var p4fake *fakeP4
		if cs.P4 {
			in := &vInst{cfg: vCfg{P4: true, NConns: 1, P4Conf: &vP4Cfg{DefaultTC: 3}}}
			conf := vConfFor(in.cfg)
			u = &upf{accessIface: "access", coreIface: "core", reportNotifyChan: make(chan uint64, 1024), maxReqRetries: 1, readTimeout: 100000 * time.Second,
				respTimeout: 2 * time.Second, fteidGenerator: NewFTEIDGenerator(), n4addr: c10N4}
			if cs.Burst > 0 {
				u.reportNotifyChan = make(chan uint64, 1)
			}
			in.u = u
			env := newVP4EnvWith(in, conf, nil)
			up = env.up4
			p4fake = env.fp
			up.p4client.conn = ready
			vsched.Go("up4.listenToDDNs", up.listenToDDNs)
		} else {
			var b *bess
			u = bessU
			b = u.datapath.(*bess)
			notifySock = &vnet.UnixSock{}
			fab.Unix["/tmp/notifycp"] = notifySock
			b.notifyBessSocket = notifySock
			vsched.Go("bess.notifyListen", func() { b.notifyListen(u.reportNotifyChan) })
		}
		node := NewPFCPNode(u)
		met = node.metrics
		vsched.Go("harness.serve", node.Serve)
		peer := fab.Peer(c10PeerAddr(0))
		c := &vConn{node: "10.0.1.1", seq: 1}
		peer.Send(c10N4+":8805", (&sReq{Kind: kAssoc, Seq: 1}).build(c).marshal())
		vsched.Quiesce("assoc")
		establish := func(seq0 uint32) bool {
			for i := 0; i < 3; i++ {
				ue := fmt.Sprintf("16.0.0.%d", i+1)
				p, f, _ := rsBasic(ue, uint32(0x100+i), "11.1.1.129")
				p[0].QERs, p[1].QERs = nil, nil
				p[1].ID = uint16(20 + i)
				switch {
				case i == 0 || cs.Burst > 0:
					f[1] = sFAR{ID: 2, Action: ActionBuffer | ActionNotify}
				case i == 2:
					if !cs.P4 {
						p = p[:1] // no downlink PDR (UP4 needs one to learn the UE address)
					} else {
						f[1] = sFAR{ID: 2, Action: ActionDrop}
					}
				}
				peer.Send(c10N4+":8805", (&sReq{Kind: kEst, CPSEID: uint64(0xC0 + i), Seq: seq0 + uint32(i), CreatePDR: p, CreateFAR: f}).build(c).marshal())
				vsched.Quiesce("est")
				d, err := vDecode(peer.Inbox[len(peer.Inbox)-1])
				if err != nil || !d.HasFSEID || d.Cause != ie.CauseRequestAccepted {
					prologueErr = fmt.Sprintf("establishment %d not accepted", i)
					return false
				}
				sess[i] = sessInfo{up: d.UPSEID, cp: uint64(0xC0 + i), ue: vIP4(ue), dlPDR: uint16(20 + i)}
			}
			return true
		}
		if !establish(10) {
			return
		}
		if cs.Reassoc {
			// one report while the first association lives (it is forwarded: nothing is asserted about it here)
			if cs.P4 {
				b := make([]byte, 4)
				binary.BigEndian.PutUint32(b, sess[0].ue)
				up.p4client.digests <- &p4.DigestList{Data: []*p4.P4Data{{Data: &p4.P4Data_Bitstring{Bitstring: b}}}}
			} else {
				b := make([]byte, 8)
				binary.LittleEndian.PutUint64(b, sess[0].up)
				notifySock.In = append(notifySock.In, b)
			}
			vsched.Quiesce("report-first-association")
			peer.Send(c10N4+":8805", (&sReq{Kind: kRel, Seq: 40}).build(c).marshal())
			vsched.Quiesce("release")
			vtime.Sleep(2 * c13Interval)
			vsched.Quiesce("quiet")
			peer.Send(c10N4+":8805", (&sReq{Kind: kAssoc, Seq: 41}).build(c).marshal())
			vsched.Quiesce("assoc-again")
			if d, err := vDecode(peer.Inbox[len(peer.Inbox)-1]); err != nil || d.Type != message.MsgTypeAssociationSetupResponse || d.Cause != ie.CauseRequestAccepted {
				prologueErr = "second association not accepted"
				return
			}
			if !establish(50) {
				return
			}
		}
		if cs.CPMoved {
			for i := 0; i < 2; i++ {
				peer.Send(c10N4+":8805", (&sReq{Kind: kMod, SEID: sess[i].up, Seq: uint32(30 + i), HasCP: true, CPSEID: uint64(0xE0 + i)}).build(c).marshal())
				vsched.Quiesce("mod-cp")
				d, err := vDecode(peer.Inbox[len(peer.Inbox)-1])
				if err != nil || d.Cause != ie.CauseRequestAccepted {
					prologueErr = fmt.Sprintf("modification %d (new CP F-SEID) not accepted", i)
					return
				}
				sess[i].cp = uint64(0xE0 + i)
			}
		}
		if cs.RefusedMod {
			p, _, _ := rsBasic("16.0.0.1", 0x100, "11.1.1.129")
			p[1].QERs, p[1].ID = nil, 20
			if p4fake != nil {
				p4fake.mu.Lock()
				p4fake.faults[p4fake.nwrite] = fpFault{Shape: "p4err"}
				p4fake.mu.Unlock()
			}
			peer.Send(c10N4+":8805", (&sReq{Kind: kMod, SEID: sess[0].up, Seq: 35, UpdatePDR: []sPDR{p[1]}}).build(c).marshal())
			vsched.Quiesce("mod-refused")
			d, err := vDecode(peer.Inbox[len(peer.Inbox)-1])
			if err != nil || d.Type != message.MsgTypeSessionModificationResponse || (p4fake != nil && d.Cause == ie.CauseRequestAccepted) {
				prologueErr = "the modification whose write fails was not refused"
				return
			}
		}
		sess[3] = sessInfo{up: 0xDEADBEEF, ue: vIP4("16.9.9.9")}
		n0 := len(peer.Inbox)
		for ei, ev := range cs.History {
			if ev.Kind == "burst" {
				for k := 0; k < cs.Burst; k++ {
					if cs.P4 {
						b := make([]byte, 4)
						binary.BigEndian.PutUint32(b, sess[k].ue)
						up.p4client.digests <- &p4.DigestList{Data: []*p4.P4Data{{Data: &p4.P4Data_Bitstring{Bitstring: b}}}}
					} else {
						b := make([]byte, 8)
						binary.LittleEndian.PutUint64(b, sess[k].up)
						notifySock.In = append(notifySock.In, b)
					}
				}
				vsched.Quiesce("burst")
				got := peer.Inbox[n0:]
				n0 = len(peer.Inbox)
				wantN := 0
				if l, seen := lastNote[0]; !seen || now-l >= c13Interval {
					wantN = cs.Burst
					for k := 0; k < cs.Burst; k++ {
						lastNote[k] = now
					}
				}
				seen := map[uint64]bool{}
				for _, b := range got {
					if dd, err := vDecode(b); err == nil && dd.Type == message.MsgTypeSessionReportRequest {
						seen[dd.SEID] = true
					}
				}
				where := fmt.Sprintf("event %d (burst of %d reports, one per session)", ei, cs.Burst)
				if len(got) != wantN || len(seen) != wantN {
					viol, desc = "burst-lost-or-extra", fmt.Sprintf("%s: %d Session Report Request(s) for %d distinct session(s), %d expected", where, len(got), len(seen), wantN)
					return
				}
				continue
			}
			if ev.Kind == "advance" {
				vtime.Sleep(time.Duration(ev.D))
				now += time.Duration(ev.D)
				vsched.Quiesce("advanced")
			} else {
				if cs.P4 {
					b := make([]byte, 4)
					binary.BigEndian.PutUint32(b, sess[ev.Sess].ue)
					up.p4client.digests <- &p4.DigestList{Data: []*p4.P4Data{{Data: &p4.P4Data_Bitstring{Bitstring: b}}}}
				} else {
					b := make([]byte, 8)
					binary.LittleEndian.PutUint64(b, sess[ev.Sess].up)
					notifySock.In = append(notifySock.In, b)
				}
				vsched.Quiesce("reported")
			}
			got := peer.Inbox[n0:]
			n0 = len(peer.Inbox)
			// ---- refLimiter
			want := false
			if ev.Kind == "report" {
				if l, seen := lastNote[ev.Sess]; !seen || now-l >= c13Interval {
					lastNote[ev.Sess] = now
					if ev.Sess == 0 {
						want = true
						lastFwd[0] = now
					}
				}
			}
			where := fmt.Sprintf("event %d (%s sess %d +%dns)", ei, ev.Kind, ev.Sess, ev.D)
			switch {
			case !want && len(got) > 0:
				viol, desc = "unexpected-notification", fmt.Sprintf("%s: %d message(s) sent to the control plane, none expected", where, len(got))
			case want && len(got) == 0:
				viol, desc = "notification-suppressed", where+": no Session Report Request sent (first report or a full interval after the last forwarded one)"
			case want && len(got) > 1:
				viol, desc = "notification-duplicated", fmt.Sprintf("%s: %d messages sent", where, len(got))
			case want:
				d, err := vDecode(got[0])
				switch {
				case err != nil || d.Type != message.MsgTypeSessionReportRequest:
					viol, desc = "not-a-report-request", where+": the message is not a Session Report Request"
				case !d.HasSEID || d.SEID != sess[0].cp:
					viol, desc = "report-header-seid", fmt.Sprintf("%s: header SEID %#x, the CP's SEID is %#x", where, d.SEID, sess[0].cp)
				case d.PDRID != sess[0].dlPDR:
					viol, desc = "report-pdr-id", fmt.Sprintf("%s: Downlink Data Report names PDR %d, the session's downlink PDR is %d", where, d.PDRID, sess[0].dlPDR)
				case usedSeq[d.Seq]:
					viol, desc = "report-seq-reused", fmt.Sprintf("%s: sequence number %d was used before on the association", where, d.Seq)
				}
				if err == nil {
					usedSeq[d.Seq] = true
				}
			}
			if viol != "" {
				return
			}
		}
	})
	if met != nil {
		met.Stop()
	}
	if prologueErr != "" {
		panic("VERIF-INFRA: C13 prologue: " + prologueErr)
	}
	if len(s.Panics) > 0 && viol == "" {
		viol, desc = "panic:"+vThreadFrame(s.Panics[0]), s.Panics[0][:minInt(300, len(s.Panics[0]))]
	}
	if (s.Deadlock || s.Horizon) && viol == "" {
		viol, desc = "stuck", fmt.Sprintf("deadlock=%v horizon=%v", s.Deadlock, s.Horizon)
	}
	// canonical state of the limiter for de-duplication: per session, time since the last update (capped at the interval)
	key = ""
	for i := 0; i < 4; i++ {
		if l, ok := lastNote[i]; ok {
			// the exact elapsed time, not capped at the interval: an implementation whose memory reaches further back than
			// one interval must not be merged away (capping is only sound for the reference model)
			key += fmt.Sprintf("%d:%d ", i, now-l)
		} else {
			key += fmt.Sprintf("%d:never ", i)
		}
	}
	res.Transitions += int64(s.Steps)
	return
}

func TestVerifC13(t *testing.T) {
	vQuietLoggers()
	res := vNewResult()
	defer res.write(t)
	depth := 5
	if vEnv.Thorough {
		depth = 6
	}
	res.Rule = fmt.Sprintf("BFS to depth %d over {report for a session whose downlink FAR buffers+notifies / forwards / has no (UP4: a dropping) downlink rule / an unknown F-SEID, advance the virtual clock by interval-1ns / 1ns / interval}, "+
		"(+ the same to depth 3 after the association was released and set up again with the same sessions, and after a modification of the notifying session that the datapath refused), every sequence is executed from scratch (no state merging: the limiter's memory is not observable) on the real pipeline of both event sources "+
		"under the canonical schedule; every message written to the peer is decoded. distinct_nontrivial = histories executed; states = distinct reference-limiter states", depth)
	res.Assumptions = []string{"one association (the code documents multi-association routing as not implemented)", "canonical schedule only: the pipeline is sequential per report (schedule exploration of node.Serve is C10's)",
		"the notification interval is the hard-coded 20 s of notifyListen / listenToDDNs"}
	ready := fbFreshReadyConn()
	if rc := vReplayCase(); rc != nil {
		var cs c13Case
		json.Unmarshal(rc, &cs)
		if v, d, _ := c13Run(res, cs, ready); v != "" {
			res.finding(fmt.Sprintf("c13:%s:p4=%v", v, cs.P4), d, cs)
		}
		res.Evaluations++
		return
	}
	var ops []c13Ev
	for sidx := 0; sidx < 4; sidx++ {
		ops = append(ops, c13Ev{Kind: "report", Sess: sidx})
	}
	for _, d := range c13Advances {
		ops = append(ops, c13Ev{Kind: "advance", D: d})
	}
	item := 0
	for _, flavour := range []struct{ p4, moved bool }{{false, false}, {true, false}, {false, true}, {true, true}} {
		p4mode := flavour.p4
		depth := depth
		if flavour.moved {
			depth -= 2 // the moved-F-SEID flavour two events shallower
		}
		// shard by the first two events
		for a := range ops {
			for b := range ops {
				item++
				if !vMine(item) {
					continue
				}
				seen := map[string]bool{}
				frontier := [][]c13Ev{{ops[a], ops[b]}}
				for d := 2; d <= depth && len(frontier) > 0; d++ {
					var next [][]c13Ev
					for _, h := range frontier {
						if res.expired() {
							return
						}
						cs := c13Case{P4: p4mode, History: h, CPMoved: flavour.moved}
						res.journal(cs)
						v, desc, key := c13Run(res, cs, ready)
						res.Evaluations++
						res.Traces++
						if v != "" {
							res.finding(fmt.Sprintf("c13:%s:p4=%v", v, p4mode), desc, cs)
							continue
						}
						// Histories are NOT merged by the limiter state: two histories that agree on the reference model's state may
						// differ in what a (wrong) implementation remembers - e.g. a stamp that lags behind after a quiet period - so
						// every sequence up to the depth is executed. The key only feeds the distinct-state count.
						res.Distinct++
						if !seen[key] {
							seen[key] = true
							res.States++
						}
						if d < depth {
							for _, op := range ops {
								next = append(next, append(append([]c13Ev{}, h...), op))
							}
						}
					}
					frontier = next
				}
			}
		}
	}
	// bursts through a one-slot channel: every sequence of up to 4 events over {burst, advance by interval-1ns / 1ns / interval}
	if vMine(0) {
		bops := []c13Ev{{Kind: "burst"}}
		for _, dd := range c13Advances {
			bops = append(bops, c13Ev{Kind: "advance", D: dd})
		}
		for _, p4mode := range []bool{false, true} {
			for _, nb := range []int{2, 3} {
				frontier := [][]c13Ev{{}}
				for dpt := 1; dpt <= 4; dpt++ {
					var next [][]c13Ev
					for _, h := range frontier {
						for _, op := range bops {
							h2 := append(append([]c13Ev{}, h...), op)
							next = append(next, h2)
							cs := c13Case{P4: p4mode, History: h2, Burst: nb}
							res.journal(cs)
							v, desc, _ := c13Run(res, cs, ready)
							res.Evaluations++
							res.Traces++
							res.Distinct++
							if v != "" {
								res.finding(fmt.Sprintf("c13:%s:p4=%v", v, p4mode), desc, cs)
							}
						}
					}
					frontier = next
				}
			}
		}
	}
	// after a release and a fresh association of the same peer / after a modification of the notifying session that the
	// datapath refused: every sequence of up to 3 events, sharded by the first
	for fl := 0; fl < 4; fl++ {
		p4mode, reassoc := fl&1 == 1, fl < 2
		for a := range ops {
			item++
			if !vMine(item) {
				continue
			}
			frontier := [][]c13Ev{{ops[a]}}
			for dpt := 1; dpt <= 3 && len(frontier) > 0; dpt++ {
				var next [][]c13Ev
				for _, h := range frontier {
					if res.expired() {
						return
					}
					cs := c13Case{P4: p4mode, History: h, Reassoc: reassoc, RefusedMod: !reassoc}
					res.journal(cs)
					v, desc, _ := c13Run(res, cs, ready)
					res.Evaluations++
					res.Traces++
					res.Distinct++
					if v != "" {
						res.finding(fmt.Sprintf("c13:%s:p4=%v:%s", v, p4mode, map[bool]string{true: "reassoc", false: "refused-mod"}[reassoc]), desc, cs)
						continue
					}
					if dpt < 3 {
						for _, op := range ops {
							next = append(next, append(append([]c13Ev{}, h...), op))
						}
					}
				}
				frontier = next
			}
		}
	}
	res.sample(c13Case{P4: false, History: []c13Ev{{Kind: "report", Sess: 0}, {Kind: "advance", D: int64(c13Interval) - 1}, {Kind: "report", Sess: 0}, {Kind: "advance", D: 1}, {Kind: "report", Sess: 0}}})
}
