//go:build verif && verifinstr

// C10 - associations end cleanly and the agent always stops. Engine SCHED: the real NewPFCPNode, node.Serve,
// handleNewPeers, NewPFCPConn, PFCPConn.Serve with its reader goroutine, heartbeat monitor, Shutdown, Stop and Done
// run on the in-memory UDP fabric and the virtual clock, with the real bess plug-in against the fake BESS; all
// schedules of the trigger phase are explored up to a deviation bound.
package pfcpiface

import (
	"context"
	"encoding/json"
	"fmt"
	"net"
	"os"
	"sort"
	"strings"
	"testing"
	"time"

	pb "github.com/omec-project/upf-epc/pfcpiface/bess_pb"
	"github.com/omec-project/upf-epc/pfcpiface/internal/verif/vnet"
	"github.com/omec-project/upf-epc/pfcpiface/internal/verif/vsched"
	"github.com/omec-project/upf-epc/pfcpiface/internal/verif/vtime"
	"github.com/omec-project/upf-epc/pfcpiface/metrics"
	"github.com/wmnsk/go-pfcp/ie"
	"github.com/wmnsk/go-pfcp/message"
	"google.golang.org/grpc"
)

type c10Scenario struct {
	Name     string   `json:"name"`
	NAssoc   int      `json:"nassoc"`
	Sessions int      `json:"sessions"` // sessions per association
	Triggers []string `json:"triggers"` // release@i, readtimeout@i, hbfail@i, stop
	InFlight bool     `json:"inflight"` // a Session Establishment datagram travels together with the triggers (to association 0)
	Reassoc  bool     `json:"reassoc"`  // afterwards a fresh Association Setup from the address of association 0
	// MaxBound > 0 caps the deviation bound for this scenario ("any number of live associations": more associations than
	// the completion channel buffers, explored under the canonical schedule and its one-deviation neighbours only)
	MaxBound int  `json:"maxbound,omitempty"`
	Canon    bool `json:"canon,omitempty"` // canonical schedule only
	// InFlightHB: heartbeat timers are on and a Heartbeat Request from peer 0 travels together with the triggers (for a
	// heartbeat failure: at the moment the agent gives up), so that it is handled while the association is being torn down
	InFlightHB bool `json:"inflighthb,omitempty"`
	// Reverse: canonical order with the most recently created thread first, so that the node's own loop runs last and
	// the connections' exit reports pile up in the completion channel
	Reverse bool `json:"reverse,omitempty"`
	// Configured: association 0 is set up by the agent towards a peer of its configuration (cpiface.peers), given as an
	// address ("addr") or as a host name ("name") that the execution's name service resolves to the peer's address
	Configured string `json:"configured,omitempty"`
	// Restarted: after its association peer 0 sends a second Association Setup Request over the same connection with a
	// newer Recovery Time Stamp (the peer restarted) and only then establishes its sessions
	Restarted bool `json:"restarted,omitempty"`
	// InFlightDel: a Session Deletion Request for the first session of association 0 travels together with the triggers
	InFlightDel bool `json:"inflightdel,omitempty"`
}

const c10PeerHostName = "smf.core.example.org"

const c10N4 = "10.0.0.1"

func c10PeerAddr(i int) string { return fmt.Sprintf("10.0.1.%d:8805", i+1) }

type c10World struct {
	node  *PFCPNode
	u     *upf
	fb    *fakeBESS
	peers []*vnet.Peer
	met   *metrics.Service
}

// schedUPF assembles the upf + real bess plug-in on the fake BESS (direct client; every command is a scheduling point).
func schedUPF(hb bool, readTimeout time.Duration, ready *grpc.ClientConn) (*upf, *fakeBESS) {
	fb := newFakeBESS()
	b := &bess{}
	// the 1 s GRPCJoin / context timeout of the bess plug-in guards against a datapath that does not answer; the scenarios
	// of this engine do not inject datapath slowness, so that timer must never be the one that "lands first"
	Timeout = 100000 * time.Hour
	u := &upf{accessIface: "access", coreIface: "core", reportNotifyChan: make(chan uint64, 1024), maxReqRetries: 1, readTimeout: readTimeout,
		respTimeout: 2 * time.Second, enableHBTimer: hb, hbInterval: 5 * time.Second, fteidGenerator: NewFTEIDGenerator(), n4addr: c10N4,
		accessIP: net.ParseIP(vN3Addr).To4(), coreIP: net.ParseIP(vN6Addr).To4(), datapath: b}
	if vsched.S != nil {
		panic("VERIF-INFRA: schedUPF must run outside the scheduler (the real SetUpfInfo talks gRPC in real time)")
	}
	// the real SetUpfInfo against the per-process gRPC front end (dial, clearState): whatever it initialises is
	// initialised; afterwards every command goes to the fake directly, as a scheduling point of its own
	srv, addr, _ := fbFrontEnd()
	srv.attach(fb)
	*bessIP = addr
	b.SetUpfInfo(u, &Conf{})
	b.client = &schedBESSClient{fb}
	// IsConnected looks at the channel state: make sure it is READY before the execution starts (waiting for a condition,
	// in real time, outside the scheduler)
	if !vWaitChannel(b.conn, true, 60*time.Second) {
		panic(fmt.Sprintf("VERIF-INFRA: the BESS channel of this execution did not become READY within 60 s (state %v)", b.conn.GetState()))
	}
	_ = ready
	return u, fb
}

// schedBESSClient makes every BESS command a scheduling point before it reaches the fake.
type schedBESSClient struct{ *fakeBESS }

func (c *schedBESSClient) ModuleCommand(ctx context.Context, in *pb.CommandRequest, opts ...grpc.CallOption) (*pb.CommandResponse, error) {
	vsched.Yield("bess." + in.Name + "." + in.Cmd)
	return c.fakeBESS.ModuleCommand(ctx, in, opts...)
}

func c10Est(c *vConn, cp uint64, n int) []byte {
	ue := fmt.Sprintf("16.0.%d.%d", n, n+1)
	p, f, _ := rsBasic(ue, uint32(0x100+n), "11.1.1.129")
	p[0].QERs, p[1].QERs = nil, nil
	r := &sReq{Kind: kEst, Conn: 0, CPSEID: cp, Seq: uint32(100 + n), CreatePDR: p[:1], CreateFAR: f[:1]}
	return r.build(c).marshal()
}

func c10Run(sc c10Scenario, prefix []int, sigs []string) (*vsched.Sched, schedVerdict) {
	s := vsched.New(prefix, 20000+4000*sc.NAssoc)
	s.PrefixSigs = sigs
	s.ChargeFreeSwitch = true
	s.MaxSlack = 20 * time.Second
	s.ReverseOrder = sc.Reverse
	w := &c10World{}
	hb := false
	rt := 1000 * time.Second
	for _, t := range sc.Triggers {
		if strings.HasPrefix(t, "hbfail") {
			hb = true
		}
		if strings.HasPrefix(t, "readtimeout") || strings.HasPrefix(t, "peergone") {
			rt = 15 * time.Second
		}
	}
	if sc.InFlightHB {
		hb = true
	}
	var doneRet, stopAsked bool
	var stray *vnet.Peer
	var strayConn *vConn
	var strayOK, strayTried bool
	var prologueErr string
	var reassocOK, reassocTried bool
	var seids []uint64
	conns := make([]*vConn, sc.NAssoc)
	ready := fbFreshReadyConn() // outside the scheduler: node.Serve's upf.Exit closes the connection of the previous execution
	vsched.S = nil
	u, fb := schedUPF(hb, rt, ready)
	defer func() {
		if b, ok := u.datapath.(*bess); ok && b.conn != nil {
			b.conn.Close() // upf.Exit closes it only when the node was stopped
		}
	}()
	s.Run(func() {
		fab := vnet.NewFabric()
		w.u, w.fb = u, fb
		var configured *vnet.Peer
		if sc.Configured != "" && sc.NAssoc > 0 {
			// the peer of the configuration exists (and its name resolves) before the node starts
			configured = fab.Peer(c10PeerAddr(0))
			u.peers = []string{"10.0.1.1"}
			if sc.Configured == "name" {
				fab.Hosts[c10PeerHostName] = "10.0.1.1"
				u.peers = []string{c10PeerHostName}
			}
		}
		w.node = NewPFCPNode(u)
		vsched.Go("harness.serve", w.node.Serve)
		for i := 0; i < sc.NAssoc; i++ {
			var p *vnet.Peer
			if i == 0 && configured != nil {
				p = configured
			} else {
				p = fab.Peer(c10PeerAddr(i))
			}
			w.peers = append(w.peers, p)
			conns[i] = &vConn{node: fmt.Sprintf("10.0.1.%d", i+1), seq: 1}
			// NewPFCPConn seeds the association's random source from the clock: under a frozen virtual clock two associations
			// would draw the same SEIDs, which real time makes a 2^-64 event; let a millisecond pass between them
			vtime.Sleep(time.Millisecond)
			if i == 0 && configured != nil {
				// the agent asks, the peer accepts
				vsched.Quiesce("agent-assoc-request")
				d, err := (*vResp)(nil), error(nil)
				if len(p.Inbox) == 1 {
					d, err = vDecode(p.Inbox[0])
				}
				if d == nil || err != nil || d.Type != message.MsgTypeAssociationSetupRequest {
					prologueErr = fmt.Sprintf("no Association Setup Request reached the configured peer (%d datagrams)", len(p.Inbox))
					return
				}
				p.Send(c10N4+":8805", (&vMsg{Type: message.MsgTypeAssociationSetupResponse, Seq: d.Seq, IEs: []*vIE{vNodeIDIE(conns[0].node), vFromIE(ie.NewCause(ie.CauseRequestAccepted)),
					vFromIE(ie.NewRecoveryTimeStamp(time.Unix(1600000000, 0)))}}).marshal())
			} else {
				p.Send(c10N4+":8805", (&sReq{Kind: kAssoc, Seq: 1}).build(conns[i]).marshal())
			}
			vsched.Quiesce("assoc")
			nAssocResp := 1
			if i == 0 && sc.Restarted {
				p.Send(c10N4+":8805", (&sReq{Kind: kAssoc, Seq: 2, TSOff: 10}).build(conns[i]).marshal())
				vsched.Quiesce("assoc-restarted-peer")
				nAssocResp = 2
			}
			for k := 0; k < sc.Sessions; k++ {
				p.Send(c10N4+":8805", c10Est(conns[i], uint64(0x70+i*4+k), i*4+k))
				vsched.Quiesce("est")
			}
			if len(p.Inbox) != nAssocResp+sc.Sessions {
				prologueErr = fmt.Sprintf("association %d: %d responses to %d requests", i, len(p.Inbox), nAssocResp+sc.Sessions)
				return
			}
			for _, b := range p.Inbox[nAssocResp:] {
				if d, err := vDecode(b); err == nil && d.HasFSEID {
					seids = append(seids, d.UPSEID)
				} else {
					prologueErr = fmt.Sprintf("establishment not accepted in the prologue (association %d, response %+v, decode error %v)", i, d, err)
					return
				}
			}
		}
		// ---- trigger phase: exploration on
		s.Explore = true
		horizon := time.Second
		for _, t := range sc.Triggers {
			kind, idx := t, 0
			if i := strings.Index(t, "@"); i >= 0 {
				kind = t[:i]
				fmt.Sscan(t[i+1:], &idx)
			}
			switch kind {
			case "release":
				w.peers[idx].Send(c10N4+":8805", (&sReq{Kind: kRel, Seq: 50}).build(conns[idx]).marshal())
			case "strayrelease":
				// an Association Release Request as the very first datagram from an address the agent does not know
				stray = fab.Peer("10.0.1.200:8805")
				strayConn = &vConn{node: "10.0.1.200", seq: 1}
				stray.Send(c10N4+":8805", (&sReq{Kind: kRel, Seq: 50}).build(strayConn).marshal())
			case "report72":
				// a Session Report Response with cause "No established PFCP Association" for the first session of association 0:
				// unusual, legal, and no reason for the agent to stop serving the peer
				if len(seids) > 0 {
					w.peers[0].Send(c10N4+":8805", (&sReq{Kind: kSRR, SEID: seids[0], Seq: 130, Cause: 72}).build(conns[0]).marshal())
				}
			case "readtimeout":
				horizon = 40 * time.Second
			case "peergone":
				// the peer closes its socket (its port answers with ICMP port unreachable), the agent still sends something to
				// it - the answer to the Heartbeat Request it sent last - and then hears nothing: the read time-out must still end
				// the association
				// (every "timer lands first" deviation may stretch the time line by one read time-out: the ICMP report is then
				// consumed at the deadline and the time-out starts again)
				horizon = 120 * time.Second
				w.peers[idx].Send(c10N4+":8805", (&sReq{Kind: kHB, Seq: 71}).build(conns[idx]).marshal())
				w.peers[idx].PortClosed = true
			case "hbfail":
				if horizon < 30*time.Second {
					horizon = 30 * time.Second
				}
			case "stop":
				stopAsked = true
				vsched.Go("harness.stop", func() { w.node.Stop(); w.node.Done(); doneRet = true })
			}
		}
		for i := 0; i < sc.NAssoc; i++ {
			if horizon > time.Second && !c10Ends(sc, i) {
				// the other peer stays alive: it sends a Heartbeat Request every 2 s and answers the agent's heartbeats
				i := i
				vsched.Go("harness.peer-alive", func() {
					answered := 0
					for t := time.Duration(0); ; t += 2 * time.Second { // until the execution ends (the main thread returns)
						vtime.Sleep(2 * time.Second)
						w.peers[i].Send(c10N4+":8805", (&sReq{Kind: kHB, Seq: uint32(1000 + int(t/time.Second))}).build(conns[i]).marshal())
						for ; answered < len(w.peers[i].Inbox); answered++ {
							if d, err := vDecode(w.peers[i].Inbox[answered]); err == nil && d.Type == message.MsgTypeHeartbeatRequest {
								w.peers[i].Send(c10N4+":8805", (&vMsg{Type: message.MsgTypeHeartbeatResponse, Seq: d.Seq, IEs: []*vIE{vFromIE(ie.NewRecoveryTimeStamp(time.Unix(1600000000, 0)))}}).marshal())
							}
						}
					}
				})
			}
		}
		if sc.InFlight && sc.NAssoc > 0 {
			w.peers[0].Send(c10N4+":8805", c10Est(conns[0], 0x99, 9))
		}
		if sc.InFlightDel && sc.NAssoc > 0 && len(seids) > 0 {
			w.peers[0].Send(c10N4+":8805", (&sReq{Kind: kDel, SEID: seids[0], Seq: 120}).build(conns[0]).marshal())
		}
		if sc.InFlightHB && sc.NAssoc > 0 {
			at := time.Duration(0)
			for _, t := range sc.Triggers {
				if strings.HasPrefix(t, "hbfail") {
					at = 9 * time.Second // hb_interval + 2 x resp_timeout: the moment the agent gives up
				}
			}
			vsched.Go("harness.peer-hb", func() {
				if at > 0 {
					vtime.Sleep(at)
				}
				w.peers[0].Send(c10N4+":8805", (&sReq{Kind: kHB, Seq: 70}).build(conns[0]).marshal())
			})
		}
		vtime.Sleep(horizon)
		vsched.Quiesce("settle")
		if stray != nil && !stopAsked {
			// the same address now associates properly
			strayTried = true
			s.NoClockDeviation = true
			n0 := len(stray.Inbox)
			stray.Send(c10N4+":8805", (&sReq{Kind: kAssoc, Seq: 60}).build(strayConn).marshal())
			vsched.Quiesce("stray-assoc")
			for _, b := range stray.Inbox[n0:] {
				if d, err := vDecode(b); err == nil && d.Type == message.MsgTypeAssociationSetupResponse && d.Seq == 60 && d.Cause == ie.CauseRequestAccepted {
					strayOK = true
				}
			}
		}
		if sc.Reassoc && sc.NAssoc > 0 && !stopAsked {
			reassocTried = true
			w.peers[0].PortClosed = false // the reborn peer listens again
			n0 := len(w.peers[0].Inbox)
			// from here on the clock advances only when no thread can run: a schedule in which the requester of a heartbeat
			// is starved past two response time-outs while the answer sits in the reader's hands makes the agent declare
			// the reborn peer dead - legitimately - and says nothing about re-association
			s.NoClockDeviation = true
			// the fresh incarnation of the peer is alive: it answers the agent's Heartbeat Requests (the silence that was
			// the trigger belongs to the old one; without this the new association legitimately dies of heartbeat failure
			// under schedules in which 5 s pass before the probe below)
			vsched.Go("harness.peer-reborn", func() {
				for answered := n0; ; {
					vsched.Cond("peer-reborn.wait", func() bool { return answered < len(w.peers[0].Inbox) })
					for ; answered < len(w.peers[0].Inbox); answered++ {
						if d, err := vDecode(w.peers[0].Inbox[answered]); err == nil && d.Type == message.MsgTypeHeartbeatRequest {
							w.peers[0].Send(c10N4+":8805", (&vMsg{Type: message.MsgTypeHeartbeatResponse, Seq: d.Seq, IEs: []*vIE{vFromIE(ie.NewRecoveryTimeStamp(time.Unix(1600000000, 0)))}}).marshal())
						}
					}
				}
			})
			w.peers[0].Send(c10N4+":8805", (&sReq{Kind: kAssoc, Seq: 60}).build(conns[0]).marshal())
			vsched.Quiesce("reassoc")
			w.peers[0].Send(c10N4+":8805", (&sReq{Kind: kHB, Seq: 61}).build(conns[0]).marshal())
			vsched.Quiesce("reassoc-hb")
			// the agent may also send its own Heartbeat Requests meanwhile: look for the two answers among what arrived
			sawAssoc, sawHB := false, false
			for _, b := range w.peers[0].Inbox[n0:] {
				if d, err := vDecode(b); err == nil {
					if d.Type == message.MsgTypeAssociationSetupResponse && d.Seq == 60 && d.Cause == ie.CauseRequestAccepted {
						sawAssoc = true
					}
					if d.Type == message.MsgTypeHeartbeatResponse && d.Seq == 61 {
						sawHB = true
					}
				}
			}
			reassocOK = sawAssoc && sawHB
		}
	})
	if w.node != nil && w.node.metrics != nil {
		w.node.metrics.Stop()
	}
	// ---- verdict
	v := schedVerdict{}
	ended := map[int]bool{}
	for _, t := range sc.Triggers {
		if i := strings.Index(t, "@"); i >= 0 {
			var idx int
			fmt.Sscan(t[i+1:], &idx)
			ended[idx] = true
		}
		if t == "stop" {
			for i := 0; i < sc.NAssoc; i++ {
				ended[i] = true
			}
		}
	}
	var bad []string
	switch {
	case prologueErr != "":
		panic("VERIF-INFRA: C10 prologue failed: " + prologueErr)
	case len(s.Panics) > 0:
		first := strings.SplitN(s.Panics[0], "\n", 2)[0]
		msg := first
		if i := strings.Index(first, ": "); i >= 0 {
			msg = first[i+2:]
		}
		v.Class = "panic:" + vThreadFrame(s.Panics[0]) + ":" + strings.ReplaceAll(msg, " ", "-")
		v.Desc = "a goroutine of the agent panicked: " + msg + " in " + vThreadFrame(s.Panics[0])
		v.Outcome = "panic " + msg
		return s, v
	case s.Horizon:
		v.Class, v.Desc, v.Outcome = "horizon", "the execution did not come to rest within the step horizon (livelock)", "horizon"
		return s, v
	case s.Deadlock:
		bad = append(bad, "deadlock")
	}
	if stopAsked && !doneRet {
		bad = append(bad, "stop-never-completes")
	}
	// every key of a session of an ended association: exactly one delete command, nothing left in the tables
	delCount := map[string]int{}
	for _, c := range w.fb.log {
		if c.Cmd == "delete" {
			delCount[c.Module+c.Key]++
		}
	}
	sessOf := map[uint64]int{}
	k := 0
	for i := 0; i < sc.NAssoc; i++ {
		for j := 0; j < sc.Sessions; j++ {
			if k < len(seids) {
				sessOf[seids[k]] = i
			}
			k++
		}
	}
	left := map[int]int{}
	for _, e := range w.fb.pdrList() {
		if a, ok := sessOf[e.FSEID]; ok {
			left[a]++
		} else {
			left[-1]++ // a session the prologue does not know: the in-flight establishment
		}
	}
	for _, e := range w.fb.farList() {
		if a, ok := sessOf[e.FSEID]; ok {
			left[a]++
		} else {
			left[-1]++
		}
	}
	for a, n := range left {
		switch {
		case a >= 0 && ended[a] && n > 0:
			bad = append(bad, "session-of-ended-association-still-installed")
		case a == -1 && (ended[0] || stopAsked):
			bad = append(bad, "in-flight-session-installed-after-teardown")
		}
	}
	for i := 0; i < sc.NAssoc; i++ {
		if !ended[i] && sc.Sessions > 0 && left[i] == 0 {
			bad = append(bad, "other-association-lost-its-sessions")
		}
	}
	for key, n := range delCount {
		if n > 1 {
			bad = append(bad, "session-deleted-more-than-once")
			_ = key
		}
	}
	if !stopAsked {
		w.node.pConns.Range(func(k, val any) bool {
			for i := 0; i < sc.NAssoc; i++ {
				// the entry of the ended association, whatever string it is filed under
				ofPeer := k.(string) == c10PeerAddr(i)
				if pc, ok := val.(*PFCPConn); ok && pc.Conn != nil && pc.RemoteAddr() != nil && pc.RemoteAddr().String() == c10PeerAddr(i) {
					ofPeer = true
				}
				if ended[i] && ofPeer && !(reassocTried && i == 0) {
					// a Heartbeat Request that arrives after the teardown legitimately creates a fresh, unassociated
					// PFCPConn for the address (C12: answered before or after association): only an entry that still
					// carries the old association is a failure
					if pc, ok := val.(*PFCPConn); ok && sc.InFlightHB && i == 0 && pc.nodeID.remote == "" && len(pc.store.GetAllSessions()) == 0 {
						continue
					}
					bad = append(bad, "ended-association-not-forgotten")
				}
			}
			return true
		})
		if strayTried && !strayOK {
			bad = append(bad, "stray-release-blocks-association")
		}
		if reassocTried && !reassocOK {
			bad = append(bad, "re-association-fails")
		}
	}
	sort.Strings(bad)
	bad = uniqStrings(bad)
	v.Outcome = fmt.Sprintf("ok left=%v dels=%d done=%v reassoc=%v", left, len(delCount), doneRet, reassocOK)
	if len(bad) > 0 {
		v.Class = bad[0]
		v.Desc = strings.Join(bad, "; ")
		v.Outcome = "BAD " + v.Desc
	}
	return s, v
}

// c10Ends tells whether a trigger of the scenario ends association i.
func c10Ends(sc c10Scenario, i int) bool {
	for _, t := range sc.Triggers {
		if t == "stop" || strings.HasSuffix(t, fmt.Sprintf("@%d", i)) {
			return true
		}
	}
	return false
}

func uniqStrings(in []string) []string {
	var out []string
	for i, x := range in {
		if i == 0 || x != in[i-1] {
			out = append(out, x)
		}
	}
	return out
}

func c10Scenarios() []c10Scenario {
	var out []c10Scenario
	add := func(n, sess int, inflight, reassoc bool, trig ...string) {
		name := fmt.Sprintf("a%ds%d:%s", n, sess, strings.Join(trig, "+"))
		if inflight {
			name += "+inflight"
		}
		if reassoc {
			name += "+reassoc"
		}
		out = append(out, c10Scenario{Name: name, NAssoc: n, Sessions: sess, Triggers: trig, InFlight: inflight, Reassoc: reassoc})
	}
	add(0, 0, false, false, "stop")
	for _, sess := range []int{0, 1} {
		for _, t := range []string{"release@0", "readtimeout@0", "hbfail@0"} {
			add(1, sess, false, true, t)
		}
		add(1, sess, false, false, "stop")
	}
	add(1, 1, true, false, "release@0")
	add(1, 1, true, false, "stop")
	add(1, 1, true, false, "readtimeout@0")
	for _, pair := range [][]string{{"release@0", "stop"}, {"readtimeout@0", "stop"}, {"hbfail@0", "stop"}, {"release@0", "readtimeout@0"}, {"release@0", "hbfail@0"}} {
		add(1, 1, false, false, pair...)
	}
	for _, t := range []string{"release@0", "readtimeout@0", "hbfail@0"} {
		add(2, 1, false, true, t)
	}
	add(2, 1, false, false, "stop")
	add(2, 1, false, false, "release@0", "release@1")
	add(2, 1, false, false, "release@0", "stop")
	add(2, 1, false, false, "release@1", "readtimeout@0")
	add(2, 0, false, false, "stop")
	add(2, 1, true, false, "release@1")
	// an Association Release Request as the first datagram from an unknown address, then that address associates / the agent stops
	add(0, 0, false, false, "strayrelease")
	add(0, 0, false, false, "strayrelease", "stop")
	add(1, 1, false, false, "strayrelease", "stop")
	// the peer's port is closed while the agent still sends to it (ICMP errors on the connected socket), then silence
	add(1, 1, false, true, "peergone@0")
	add(2, 1, false, true, "peergone@0")
	// a Heartbeat Request of the peer handled while its association is being torn down
	for _, trig := range [][]string{{"stop"}, {"hbfail@0"}, {"release@0"}, {"readtimeout@0"}} {
		add(1, 1, false, false, trig...)
		out[len(out)-1].InFlightHB = true
		out[len(out)-1].Name += "+inflight-hb"
	}
	add(2, 1, false, false, "stop")
	out[len(out)-1].InFlightHB = true
	out[len(out)-1].Name += "+inflight-hb"
	// association 0 set up by the agent towards a peer of its configuration, given by address or by host name
	for _, how := range []string{"addr", "name"} {
		for _, trig := range [][]string{{"release@0"}, {"hbfail@0"}, {"stop"}} {
			add(1, 1, false, false, trig...)
			out[len(out)-1].Configured = how
			out[len(out)-1].Name += "+configured-by-" + how
		}
	}
	// the peer restarted (second Association Setup with a newer Recovery Time Stamp) before it established its sessions
	for _, trig := range [][]string{{"release@0"}, {"hbfail@0"}, {"stop"}} {
		add(1, 1, false, false, trig...)
		out[len(out)-1].Restarted = true
		out[len(out)-1].Name += "+restarted-peer"
	}
	// a Session Deletion Request in flight while the association is torn down by another goroutine
	for _, trig := range [][]string{{"stop"}, {"hbfail@0"}, {"readtimeout@0"}} {
		add(1, 1, false, false, trig...)
		out[len(out)-1].InFlightDel = true
		out[len(out)-1].Name += "+inflight-del"
	}
	// a Session Report Response with an unusual cause, then the same peer associates again / the agent stops
	add(1, 1, false, true, "report72")
	add(1, 1, false, false, "report72", "stop")
	// "with any number of live associations": more than the node's completion channel buffers (100)
	for _, n := range []int{101, 130} {
		add(n, 0, false, false, "stop")
		out[len(out)-1].Canon = true
	}
	add(101, 0, false, false, "release@0", "stop")
	out[len(out)-1].Canon = true
	for _, n := range []int{101, 130} {
		add(n, 0, false, false, "stop")
		out[len(out)-1].Canon, out[len(out)-1].Reverse = true, true
		out[len(out)-1].Name += "+reverse-order"
	}
	return out
}

func TestVerifC10(t *testing.T) {
	vQuietLoggers()
	res := vNewResult()
	defer res.write(t)
	bound := 2
	maxExec := int64(60000)
	if vEnv.Thorough {
		bound, maxExec = 3, 3000000
	}
	res.Rule = fmt.Sprintf("scenario family: n in {0,1,2} live associations with 0-1 session x non-empty trigger subsets of size <=2 of {Association Release, read timeout, heartbeat failure, Stop} "+
		"(+ a Session Establishment in flight, + a fresh Association Setup afterwards); per scenario every schedule of the trigger phase with <= %d deviations (preemption, timer landing first, "+
		"non-first ready select case, non-canonical switch at a blocking point) on the virtual clock and in-memory UDP fabric. distinct_nontrivial = executions whose schedule differs from the canonical one", bound)
	res.Assumptions = []string{"sequentially consistent interleavings at synchronisation operations, socket and datapath I/O; unsynchronised memory accesses are invisible to this engine (free-running -race complement)",
		"the rewriting rules of DESIGN.md section 4.1 preserve behaviour (the pinned suite passes on the rewritten package with the scheduler inactive)"}
	scs := c10Scenarios()
	fbFrontEnd() // the shared Ready gRPC connection is created outside the scheduler
	if rc := vReplayCase(); rc != nil {
		var c schedCase
		json.Unmarshal(rc, &c)
		b, _ := json.Marshal(c.Scenario)
		var sc c10Scenario
		json.Unmarshal(b, &sc)
		sr, v := c10Run(sc, c.Choices, c.Sigs)
		if sr.Diverged != "" {
			panic("VERIF-INFRA: the recorded schedule does not fit this tree: " + sr.Diverged)
		}
		if os.Getenv("VERIF_SCHEDLOG") != "" {
			for _, l := range sr.Log {
				fmt.Println("SCHED", l)
			}
			fmt.Println("VERDICT", v.Class, v.Desc, v.Outcome)
		}
		if v.Class != "" {
			res.finding("c10:"+v.Class+":"+sc.Name, v.Desc, c)
		}
		res.Evaluations++
		return
	}
	completed := bound
	// every worker takes its share of the first-level subtrees of every scenario (the scenarios differ in size by orders of
	// magnitude; the canonical execution at the root is run by every worker)
	schedShard = func(k int) bool { return vMine(k) }
	for _, sc := range scs {
		if only := os.Getenv("VERIF_ONLY"); only != "" && !strings.Contains(sc.Name, only) {
			continue
		}
		sc := sc
		b := bound
		if sc.Canon {
			b = 0
		}
		st := schedExplore(res, "c10", sc, sc.Name, b, maxExec, func(p []int, sg []string) (*vsched.Sched, schedVerdict) { return c10Run(sc, p, sg) })
		if st.Truncated && completed > bound-1 {
			completed = bound - 1
		}
		res.Distinct += st.Executions - 1
		res.addExtra("sum_choice_points", st.Points)
	}
	res.Extra["min_deviation_bound_completed"] = completed
	res.Extra["scenarios"] = len(scs)
	res.Extra["states_are_outcomes"] = true
	res.sample(map[string]any{"scenario": scs[len(scs)/2], "schedule": "choice list of the scheduler, e.g. [0,0,1,0,2]"})
}
