//go:build verif

// C02 - every request gets exactly one correctly addressed response. Engine SEQ (BFS over request histories on
// real instances) + ENUM (sequence-number sweep).
package pfcpiface

import (
	"encoding/json"
	"fmt"
	"os"
	"testing"

	"github.com/wmnsk/go-pfcp/ie"
	"github.com/wmnsk/go-pfcp/message"
)

type c02Scenario struct {
	Name string `json:"name"`
	Cfg  vCfg   `json:"cfg"`
}

func u8(v uint8) *uint8 { return &v }

// basic rule sets used by several properties
func rsBasic(ue string, teid uint32, gnb string) ([]sPDR, []sFAR, []sQER) {
	pdrs := []sPDR{
		{ID: 1, Prec: 100, Src: ie.SrcInterfaceAccess, FTEID: &sFTEID{TEID: teid, IP: vN3Addr}, UEIP: ue, Decap: true, FAR: 1, QERs: []uint32{1}},
		{ID: 2, Prec: 100, Src: ie.SrcInterfaceCore, UEIP: ue, FAR: 2, QERs: []uint32{1}},
	}
	fars := []sFAR{
		{ID: 1, Action: ActionForward, HasFwd: true, HasDst: true, Dst: ie.DstInterfaceCore},
		{ID: 2, Action: ActionForward, HasFwd: true, HasDst: true, Dst: ie.DstInterfaceAccess, OHCIP: gnb, OHCTEID: teid + 0x1000},
	}
	qers := []sQER{{ID: 1, QFI: 9, GateUL: 0, GateDL: 0, MBRUL: 50000, MBRDL: 60000}}
	return pdrs, fars, qers
}

func rsChoose() ([]sPDR, []sFAR, []sQER) {
	pdrs := []sPDR{
		{ID: 1, Prec: 100, Src: ie.SrcInterfaceAccess, FTEID: &sFTEID{Choose: true}, UEAlloc: false, UEIP: "", Decap: true, FAR: 1},
		{ID: 2, Prec: 100, Src: ie.SrcInterfaceCore, UEAlloc: true, FAR: 2},
	}
	fars := []sFAR{
		{ID: 1, Action: ActionForward, HasFwd: true, HasDst: true, Dst: ie.DstInterfaceCore},
		{ID: 2, Action: ActionBuffer | ActionNotify},
	}
	return pdrs, fars, nil
}

func c02Alphabet(s *sessSys) []sessReq {
	var out []sessReq
	add := func(label string, r sessReq) {
		r.Label = label
		out = append(out, r)
	}
	nconn := len(s.in.conns)
	liveTotal := len(s.m.live(-1))
	for c := 0; c < nconn; c++ {
		if s.m.Gone[c] {
			add("assoc-again", sessReq{sReq: sReq{Kind: kAssoc, Conn: c}})
			continue
		}
		if s.m.Assoc[c] == "" {
			add("assoc", sessReq{sReq: sReq{Kind: kAssoc, Conn: c}})
		}
		add("hb", sessReq{sReq: sReq{Kind: kHB, Conn: c}})
		if c == 0 && s.m.Assoc[c] != "" {
			// the peer's clock (or the peer) says a later Recovery Time Stamp than at association time: still one answer
			add("hb-newer-ts", sessReq{sReq: sReq{Kind: kHB, Conn: c, TSOff: 10}})
		}
		if c == 0 {
			add("pfd", sessReq{sReq: sReq{Kind: kPFD, Conn: c, PFDs: []sPFD{{App: "app1", Flows: []string{"permit out ip from 10.1.0.0/16 to assigned"}}}}})
			add("pfd-bad", sessReq{sReq: sReq{Kind: kPFD, Conn: c, PFDs: []sPFD{{App: "app1", Bad: "noflow"}}}})
		}
		if liveTotal < 3 && len(s.m.live(c)) < 2 {
			n := len(s.m.Sess)
			cps := []uint64{1, 0, 1 << 32, ^uint64(0)}
			for vi, cp := range cps {
				if c == 1 && vi > 1 {
					continue
				}
				p, f, q := rsBasic(fmt.Sprintf("16.0.%d.%d", c, n+1), uint32(0x100+n), "11.1.1.129")
				add(fmt.Sprintf("est-basic-cp%d", vi), sessReq{sReq: sReq{Kind: kEst, Conn: c, CPSEID: cp, CreatePDR: p, CreateFAR: f, CreateQER: q}})
			}
			if s.in.cfg.UEIPAlloc {
				p, f, q := rsChoose()
				add("est-choose", sessReq{sReq: sReq{Kind: kEst, Conn: c, CPSEID: 1, CreatePDR: p, CreateFAR: f, CreateQER: q}})
				if c == 0 {
					pr := append([]sPDR{}, p...)
					for i := range pr {
						pr[i].Rev = true
					}
					add("est-choose-reversed-ies", sessReq{sReq: sReq{Kind: kEst, Conn: c, CPSEID: 1, CreatePDR: pr, CreateFAR: f, CreateQER: q}})
				}
			}
			if c == 0 {
				// a new establishment (other CP F-SEID, other UE) that re-uses the sequence number of the connection's previous,
				// answered request: it is answered for what it is, not with an earlier answer
				p, f, q := rsBasic(fmt.Sprintf("16.0.%d.%d", c, n+1), uint32(0x100+n), "11.1.1.129")
				add("est-basic-sameseq", sessReq{sReq: sReq{Kind: kEst, Conn: c, CPSEID: 0x5A00 + uint64(n), CreatePDR: p, CreateFAR: f, CreateQER: q}, SameSeq: true})
			}
			if c == 0 {
				p, f, q := rsBasic("16.0.9.9", 0x999, "11.1.1.129")
				add("est-wrong-node", sessReq{sReq: sReq{Kind: kEst, Conn: c, CPSEID: 5, NodeID: "10.9.9.9", CreatePDR: p, CreateFAR: f, CreateQER: q}})
			}
		}
		for _, x := range s.m.live(c) {
			add("del", sessReq{sReq: sReq{Kind: kDel, Conn: c}, Sess: x.Idx})
			if f := x.far(2); f != nil && f.OHCIP != "" {
				nf := *f
				nf.OHCTEID ^= 0x1
				add("mod-ufar", sessReq{sReq: sReq{Kind: kMod, Conn: c, UpdateFAR: []sFAR{nf}}, Sess: x.Idx})
				if x.CPSEID != 0x77 {
					add("mod-newcp", sessReq{sReq: sReq{Kind: kMod, Conn: c, HasCP: true, CPSEID: 0x77, UpdateFAR: []sFAR{nf}}, Sess: x.Idx})
					if c == 0 {
						add("mod-newcp-sameseq", sessReq{sReq: sReq{Kind: kMod, Conn: c, HasCP: true, CPSEID: 0x77, UpdateFAR: []sFAR{nf}}, Sess: x.Idx, SameSeq: true})
					}
				}
			}
			add("mod-remove-unknown", sessReq{sReq: sReq{Kind: kMod, Conn: c, RemovePDR: []uint16{99}}, Sess: x.Idx})
		}
		if c == 0 {
			add("del-unknown", sessReq{sReq: sReq{Kind: kDel, Conn: c}, Sess: -1})
			add("mod-unknown", sessReq{sReq: sReq{Kind: kMod, Conn: c}, Sess: -1})
			add("srr-accepted", sessReq{sReq: sReq{Kind: kSRR, Conn: c, Cause: ie.CauseRequestAccepted}, Sess: -1})
			add("raw-hbresp", sessReq{sReq: sReq{Kind: "raw", Conn: c}, RawType: message.MsgTypeHeartbeatResponse})
			add("raw-assocresp", sessReq{sReq: sReq{Kind: "raw", Conn: c}, RawType: message.MsgTypeAssociationSetupResponse})
		}
		if s.m.Assoc[c] != "" {
			add("release", sessReq{sReq: sReq{Kind: kRel, Conn: c}})
		}
	}
	return out
}

func c02Oracle(c *stepCtx) {
	s := c.sys
	lbl := c.req.Label
	if c.pframe != "" {
		s.violation("c02:panic:"+c.pframe, fmt.Sprintf("handler panicked on %s: %s", lbl, c.pmsg))
		return
	}
	want := vRespTypeFor(c.msg.Type)
	if want == 0 {
		if len(c.out) != 0 {
			s.violation("c02:answered-non-request:"+lbl, fmt.Sprintf("%d datagram(s) written in reaction to message type %d", len(c.out), c.msg.Type))
		}
		return
	}
	if len(c.out) != 1 {
		s.violation(fmt.Sprintf("c02:nresp:%s:%d", c.req.Kind, len(c.out)), fmt.Sprintf("%s produced %d responses", lbl, len(c.out)))
		return
	}
	r := c.resp
	if r == nil {
		s.violation("c02:undecodable:"+c.req.Kind, "response does not decode")
		return
	}
	if r.Type != want {
		s.violation(fmt.Sprintf("c02:type:%s:%d", c.req.Kind, r.Type), fmt.Sprintf("%s answered with %s", lbl, r.Name))
		return
	}
	if r.Seq != c.msg.Seq&0xFFFFFF {
		s.violation("c02:seq:"+c.req.Kind, fmt.Sprintf("%s: request seq %d, response seq %d", lbl, c.msg.Seq, r.Seq))
	}
	if c.req.Kind == kHB {
		return
	}
	if !r.HasCause {
		s.violation("c02:nocause:"+c.req.Kind, lbl+": response without cause")
		return
	}
	localNode := s.in.cfg.NodeID
	if localNode == "" {
		localNode = vN4Addr
	}
	switch c.req.Kind {
	case kEst:
		if c.accepted {
			if !r.HasSEID || r.SEID != c.req.CPSEID {
				s.violation("c02:est-hdr-seid", fmt.Sprintf("accepted establishment addressed with SEID %#x, CP F-SEID is %#x", r.SEID, c.req.CPSEID))
			}
			if r.NodeID != localNode {
				s.violation("c02:est-nodeid", fmt.Sprintf("node id %q, expected %q", r.NodeID, localNode))
			}
			if !r.HasFSEID || r.UPSEID == 0 {
				s.violation("c02:est-upfseid-zero", "accepted establishment without a non-zero UP F-SEID")
			} else if r.UPIP != vN4Addr {
				s.violation("c02:est-upfseid-addr", "UP F-SEID carries "+r.UPIP+", N4 address is "+vN4Addr)
			}
			for _, o := range s.m.live(c.req.Conn) {
				if o != c.newSess && o.UPSEID == r.UPSEID {
					s.violation("c02:est-upfseid-reused", fmt.Sprintf("UP F-SEID %#x already addresses a live session of the association", r.UPSEID))
				}
			}
			want := map[string]int{}
			for _, p := range c.req.CreatePDR {
				if p.FTEID != nil && p.FTEID.Choose {
					want[fmt.Sprintf("%d:teid", p.ID)]++
				}
				if p.UEAlloc && p.Src == ie.SrcInterfaceCore {
					want[fmt.Sprintf("%d:ueip", p.ID)]++
				}
			}
			got := map[string]int{}
			for _, cr := range r.Created {
				if cr.HasT {
					got[fmt.Sprintf("%d:teid", cr.PDRID)]++
				}
				if cr.HasU {
					got[fmt.Sprintf("%d:ueip", cr.PDRID)]++
				}
			}
			if vJSON(want) != vJSON(got) {
				s.violation("c02:est-created-pdr", fmt.Sprintf("Created PDR elements %v, expected %v", got, want))
			}
		}
	case kMod, kDel:
		if c.accepted {
			if c.sess == nil {
				s.violation("c02:accepted-unknown-session:"+c.req.Kind, lbl+": request naming an unknown session was accepted")
			} else if !r.HasSEID || r.SEID != c.sess.CPSEID {
				s.violation("c02:hdr-seid:"+c.req.Kind, fmt.Sprintf("%s: response addressed with SEID %#x, the CP's SEID for the session is %#x", lbl, r.SEID, c.sess.CPSEID))
			}
		} else {
			if c.sess == nil && r.SEID != 0 {
				s.violation("c02:reject-seid-nonzero:"+c.req.Kind, fmt.Sprintf("rejection for an unknown session carries SEID %#x", r.SEID))
			}
			if c.sess != nil && c.req.Kind == kDel && !s.in.cfg.P4 {
				s.violation("c02:live-session-not-addressable", fmt.Sprintf("deletion of a live session (UP F-SEID %#x) rejected with cause %d", c.sess.UPSEID, r.Cause))
			}
		}
	}
	if !c.accepted && r.Cause == ie.CauseRequestAccepted {
		s.violation("c02:cause", "inconsistent cause")
	}
}

func newSessSys(ex *seqExplorer, res *vResult, cfg vCfg, alphabet func(s *sessSys) []sessReq, oracles ...func(c *stepCtx)) *sessSys {
	in := newVInst(cfg)
	s := &sessSys{ex: ex, res: res, in: in, m: newRefAgent(len(in.conns)), alphabet: alphabet, oracles: oracles, afterRefusal: os.Getenv("VERIF_NO_AFTER_REFUSAL") == ""}
	in.conns[0].seq = 0xFFFFFE // sequence numbers cross the 24-bit boundary on the first association
	return s
}

func c02Scenarios() []c02Scenario {
	return []c02Scenario{
		{"bess", vCfg{NConns: 2}},
		{"bess-uealloc", vCfg{NConns: 2, UEIPAlloc: true, Pool: "10.250.0.0/29"}},
		{"bess-down", vCfg{NConns: 1, Down: true}},
		{"bess-rng-zero", vCfg{NConns: 1, RngScript: []uint64{0}}},
		{"bess-rng-repeat", vCfg{NConns: 1, RngScript: []uint64{5}}},
		{"bess-rng-period2", vCfg{NConns: 1, RngScript: []uint64{7, 7, 9, 7, 9, 9, 11}}},
		{"bess-nodeid-fqdn", vCfg{NConns: 1, NodeID: "upf.example.org"}},
		{"bess-nodeid-ip", vCfg{NConns: 1, NodeID: "192.0.2.7"}},
	}
}

func TestVerifC02(t *testing.T) {
	vQuietLoggers()
	res := vNewResult()
	defer res.write(t)
	res.Rule = "BFS over request histories (association, heartbeat, PFD, establishment with 4 CP SEIDs / CHOOSE / wrong node, modification incl. CP F-SEID change and " +
		"rejected ones, deletion, unknown sessions, release + re-association, response-type input) on 2 associations x <=3 sessions, per scenario " +
		"(UE-IP allocation, datapath down, scripted random source, configured node id); every response decoded and checked; " +
		"plus the sequence-number sweep. distinct_nontrivial = distinct canonical states reached + distinct (type, seq) sweep cases"
	res.Assumptions = []string{"go-pfcp decodes what the agent encoded", "a datagram from an address whose association ended creates a new PFCPConn (node.go handleNewPeers); the harness does the same"}
	depth := 5
	if vEnv.Thorough {
		depth = 6
	}
	scs := c02Scenarios()
	run := func(sc c02Scenario, filter func(int) bool, replay *seqCase) {
		ex := &seqExplorer{res: res, scenario: sc, depth: depth}
		ex.mk = func() seqSys {
			s := newSessSys(ex, res, sc.Cfg, c02Alphabet, c02Oracle)
			return s
		}
		if replay != nil {
			ex.replay(*replay)
			return
		}
		ex.explore(filter)
		res.Distinct += ex.stats.States
	}
	if rc := vReplayCase(); rc != nil {
		var c seqCase
		json.Unmarshal(rc, &c)
		var sc c02Scenario
		json.Unmarshal(c.Scenario, &sc)
		if sc.Name == "seq-sweep" {
			c02Sweep(res, c.History)
			return
		}
		run(sc, nil, &c)
		return
	}
	// work items = (scenario, root operation); the first scenario dominates, so it is split by root op
	item := 0
	for _, sc := range scs {
		sc := sc
		probe := newSessSys(&seqExplorer{res: res}, res, sc.Cfg, c02Alphabet)
		nroot := len(probe.ops())
		probe.close()
		for r := 0; r < nroot; r++ {
			r := r
			if vMine(item) {
				run(sc, func(i int) bool { return i == r }, nil)
			}
			item++
		}
	}
	res.sample(map[string]any{"scenario": scs[1].Name, "history": []string{"assoc", "est-choose", "mod-newcp", "del"}})
	c02Sweep(res, nil)
	res.Extra["bfs_depth"] = depth
}

// c02Sweep: every 24-bit sequence number (thorough) / boundary set + every 251st (quick) on stateless requests.
func c02Sweep(res *vResult, replay []seqOp) {
	in := newVInst(vCfg{NConns: 1})
	defer in.close()
	c := in.conns[0]
	out, _, _ := in.inject(0, (&sReq{Kind: kAssoc, Conn: 0, Seq: 1}).build(c).marshal())
	if len(out) != 1 {
		res.finding("c02:sweep-setup", "association setup not answered", nil)
		return
	}
	kinds := []sReq{{Kind: kHB}, {Kind: kDel, SEID: vUnknownSEID}, {Kind: kMod, SEID: vUnknownSEID}, {Kind: kPFD, PFDs: []sPFD{{App: "a", Flows: []string{"permit out ip from any to assigned"}}}}}
	check := func(k sReq, seq uint32) {
		k.Seq = seq
		m := k.build(c)
		out, fr, msg := in.inject(0, m.marshal())
		res.Evaluations++
		bad := ""
		if fr != "" {
			bad = "panic in " + fr + ": " + msg
		} else if len(out) != 1 {
			bad = fmt.Sprintf("%d responses", len(out))
		} else if d, err := vDecode(out[0]); err != nil || d.Type != vRespTypeFor(m.Type) || d.Seq != seq {
			bad = fmt.Sprintf("response type/seq mismatch (%v)", err)
		}
		if bad != "" {
			sc := c02Scenario{Name: "seq-sweep"}
			b, _ := json.Marshal(sc)
			res.finding("c02:sweep:"+k.Kind, fmt.Sprintf("%s with sequence number %d: %s", k.Kind, seq, bad), seqCase{Scenario: b, History: []seqOp{mkOp("sweep", map[string]any{"kind": k.Kind, "seq": seq})}})
		}
		res.Distinct++
	}
	if replay != nil {
		var a struct {
			Kind string
			Seq  uint32
		}
		json.Unmarshal(replay[0].Arg, &a)
		for _, k := range kinds {
			if k.Kind == a.Kind {
				check(k, a.Seq)
			}
		}
		return
	}
	bnd := map[uint32]bool{0: true, 1: true, 0xFFFF: true, 0x10000: true, 0xFFFFFE: true, 0xFFFFFF: true, 0x800000: true, 0x7FFFFF: true}
	for seq := uint32(0); seq <= 0xFFFFFF; seq++ {
		if !vMine(int(seq)) {
			continue
		}
		full := vEnv.Thorough || bnd[seq] || seq%251 == 0
		if !full {
			continue
		}
		for i, k := range kinds {
			if i >= 2 && !bnd[seq] && seq%4099 != 0 {
				continue
			}
			check(k, seq)
		}
		if seq&0xFFFF == 0 && res.expired() {
			break
		}
	}
}
