//go:build verif && verifinstr

// Engine SCHED, explorer side: stateless depth-first search with replay over the choices of the cooperative scheduler
// (internal/verif/vsched), deviation-bounded (preemption, timer landing first, non-first ready select case, explicit
// environment choice). One execution = one fresh instance of the real code under one schedule.
package pfcpiface

import (
	"fmt"
	"sort"
	"strings"

	"github.com/omec-project/upf-epc/pfcpiface/internal/verif/vsched"
)

type schedVerdict struct {
	Class   string // "" = property held on this execution
	Desc    string
	Outcome string // observable outcome of the execution (for the distinct-outcomes count)
}

type schedCase struct {
	Scenario any      `json:"scenario"`
	Choices  []int    `json:"choices"`
	Sigs     []string `json:"sigs,omitempty"`
}

type schedStats struct {
	Executions, Points, Steps int64
	Outcomes                  map[string]int
	BoundCompleted            int
	Truncated                 bool
}

// schedRunFn executes the scenario under the schedule given by prefix (then canonical choices) and judges it.
type schedRunFn func(prefix []int, sigs []string) (*vsched.Sched, schedVerdict)

func traceOf(s *vsched.Sched) ([]int, []string) {
	var ch []int
	var sg []string
	for _, c := range s.Trace {
		ch = append(ch, c.Taken)
		sg = append(sg, c.Sig)
	}
	return ch, sg
}

func vThreadFrame(panicText string) string {
	for _, l := range strings.Split(panicText, "\n") {
		if strings.Contains(l, "upf-epc/pfcpiface.") && !strings.Contains(l, "zz_verif") && !strings.Contains(l, "/internal/verif/") && !strings.Contains(l, "pfcpiface.v") && !strings.Contains(l, "pfcpiface.c1") && !strings.Contains(l, "pfcpiface.sched") {
			f := strings.TrimSpace(l)
			if i := strings.Index(f, "upf-epc/pfcpiface."); i >= 0 {
				f = f[i+len("upf-epc/pfcpiface."):]
			}
			if i := strings.LastIndex(f, "("); i > 0 {
				f = f[:i]
			}
			return f
		}
	}
	return "unknown"
}

// schedExplore runs the DFS for one scenario with the deviation bound iterated 0..bound.
// schedShard, when set, splits one scenario's search over the workers: the subtrees below the root execution are dealt out.
var schedShard func(k int) bool

func schedExplore(res *vResult, prop string, scenario any, scName string, bound int, maxExec int64, run schedRunFn) schedStats {
	st := schedStats{Outcomes: map[string]int{}}
	type item struct {
		prefix []int
		sigs   []string
		cost   int
	}
	reported := map[string]bool{}
	for b := 0; b <= bound; b++ {
		// each bound re-explores from scratch but only executions with exactly b deviations are new; to keep it simple
		// and the accounting honest, the search for bound b enumerates all executions with <= b deviations
		if b < bound {
			continue
		}
		stack := []item{{nil, nil, 0}}
		rootKids := 0
		for len(stack) > 0 {
			if st.Executions >= maxExec || res.expired() {
				st.Truncated = true
				res.Exhaustive = false
				break
			}
			it := stack[len(stack)-1]
			stack = stack[:len(stack)-1]
			res.journal(schedCase{Scenario: scenario, Choices: it.prefix})
			s, v := run(it.prefix, it.sigs)
			st.Executions++
			st.Points += int64(len(s.Trace))
			st.Steps += int64(s.Steps)
			if s.Diverged != "" {
				panic("VERIF-INFRA: " + s.Diverged + " (scenario " + scName + ")")
			}
			st.Outcomes[v.Outcome]++
			if v.Class != "" {
				sig := prop + ":" + v.Class + ":" + scName
				if !reported[sig] {
					reported[sig] = true
					ch, sg := traceOf(s)
					// a failing schedule is replayed twice before it is believed
					for i := 0; i < 2; i++ {
						s2, v2 := run(ch, sg)
						if s2.Diverged != "" || v2.Class != v.Class {
							panic(fmt.Sprintf("VERIF-INFRA: schedule does not reproduce (scenario %s): %q vs %q %s", scName, v.Class, v2.Class, s2.Diverged))
						}
					}
					res.finding(sig, fmt.Sprintf("%s [scenario %s, %d deviations, schedule of %d choices]", v.Desc, scName, it.cost, len(ch)), schedCase{Scenario: scenario, Choices: ch, Sigs: sg})
				}
			}
			cost := 0 // deviations spent before point i (the trace includes the prefix's choices)
			for i := 0; i < len(s.Trace); i++ {
				cp := s.Trace[i]
				if i >= len(it.prefix) {
					for alt := cp.N - 1; alt >= 1; alt-- {
						if cost+cp.Costs[alt] <= b {
							np := make([]int, i+1)
							ns := make([]string, i+1)
							for j := 0; j < i; j++ {
								np[j], ns[j] = s.Trace[j].Taken, s.Trace[j].Sig
							}
							np[i], ns[i] = alt, cp.Sig
							if it.prefix == nil && schedShard != nil {
								rootKids++
								if !schedShard(rootKids) {
									continue
								}
							}
							stack = append(stack, item{np, ns, cost + cp.Costs[alt]})
						}
					}
				}
				cost += cp.Costs[cp.Taken]
			}
		}
		if !st.Truncated {
			st.BoundCompleted = b
		}
	}
	res.Evaluations += st.Executions
	res.Traces += st.Executions
	res.Transitions += st.Steps
	res.States += int64(len(st.Outcomes))
	for k, n := range st.Outcomes {
		res.Outcomes[scName+": "+k] += n
	}
	return st
}

func sortedKeys(m map[string]int) []string {
	var ks []string
	for k := range m {
		ks = append(ks, k)
	}
	sort.Strings(ks)
	return ks
}
