//go:build verif

// C06 - UE IP pool: in range, exclusive, sticky, conserved (sequential part). Engine SEQ/ENUM directly on the real IPPool:
// complete reachable state space for /30 and /29 (breadth-first, states cloned in-package), depth-bounded above; every
// prefix length for construction; the same sequences end-to-end as establishments reading Created PDR.
package pfcpiface

import (
	"encoding/json"
	"fmt"
	"net"
	"sort"
	"strings"
	"testing"

	"github.com/wmnsk/go-pfcp/ie"
)

type c06Op struct {
	Kind string `json:"kind"` // alloc / release
	S    uint64 `json:"s"`
}

type c06Case struct {
	CIDR string  `json:"cidr"`
	Ops  []c06Op `json:"ops"`
}

func c06Clone(p *IPPool) *IPPool {
	n := &IPPool{inventory: map[uint64]net.IP{}}
	n.freePool = append(n.freePool, p.freePool...)
	for k, v := range p.inventory {
		n.inventory[k] = v
	}
	return n
}

func c06Key(p *IPPool) string {
	var inv []string
	for k, v := range p.inventory {
		inv = append(inv, fmt.Sprintf("%d>%s", k, v))
	}
	sort.Strings(inv)
	var free []string
	for _, ip := range p.freePool {
		free = append(free, ip.String())
	}
	return strings.Join(free, ",") + "|" + strings.Join(inv, ",")
}

// refPool is a set, not a queue: it states only the property.
type refPool struct {
	net    *net.IPNet
	usable map[string]bool
	held   map[uint64]string
}

func newRefPool(cidr string) *refPool {
	_, n, _ := net.ParseCIDR(cidr)
	r := &refPool{net: n, usable: map[string]bool{}, held: map[uint64]string{}}
	ones, bits := n.Mask.Size()
	size := 1 << uint(bits-ones)
	base := ip2int(n.IP)
	for i := 1; i < size-1; i++ { // network and broadcast address are not handed out
		r.usable[int2ip(base+uint32(i)).String()] = true
	}
	return r
}

func (r *refPool) clone() *refPool {
	n := &refPool{net: r.net, usable: r.usable, held: map[uint64]string{}}
	for k, v := range r.held {
		n.held[k] = v
	}
	return n
}

// c06Step applies op to pool and model and returns a violation description ("" = fine).
func c06Step(p *IPPool, r *refPool, op c06Op) string {
	switch op.Kind {
	case "alloc":
		var ip net.IP
		var err error
		fr, msg := vCatch(func() { ip, err = p.LookupOrAllocIP(op.S) })
		if fr != "" {
			return "panic: " + msg
		}
		if had, ok := r.held[op.S]; ok {
			if err != nil || ip.String() != had {
				return fmt.Sprintf("not-sticky: session %d holds %s, asking again returned %v (err %v)", op.S, had, ip, err)
			}
			return ""
		}
		if err != nil {
			if len(r.held) != len(r.usable) {
				return fmt.Sprintf("refused-with-free-addresses: allocation refused although only %d of %d addresses are held", len(r.held), len(r.usable))
			}
			return ""
		}
		a := ip.String()
		if !r.usable[a] {
			return fmt.Sprintf("out-of-range: %s is not a usable address of %s (network/broadcast excluded)", a, r.net)
		}
		for s, h := range r.held {
			if h == a {
				return fmt.Sprintf("not-exclusive: %s handed to session %d while session %d holds it", a, op.S, s)
			}
		}
		r.held[op.S] = a
	case "release":
		had, ok := r.held[op.S]
		var err error
		fr, msg := vCatch(func() { err = p.DeallocIP(op.S) })
		if fr != "" {
			return "panic: " + msg
		}
		if ok && err != nil {
			return fmt.Sprintf("release-refused: session %d holds %s but its release failed: %v", op.S, had, err)
		}
		if ok {
			delete(r.held, op.S)
		}
	}
	// conservation, from the pool's own books
	if len(p.freePool)+len(p.inventory) != len(r.usable) {
		return fmt.Sprintf("not-conserved: %d free + %d held != %d usable addresses", len(p.freePool), len(p.inventory), len(r.usable))
	}
	seen := map[string]bool{}
	for _, ip := range p.freePool {
		a := ip.String()
		if seen[a] || !r.usable[a] {
			return "free-list-corrupt: " + a + " is twice in the free list or not a usable address"
		}
		seen[a] = true
		for _, h := range r.held {
			if h == a {
				return "free-and-held: " + a + " is in the free list while a session holds it"
			}
		}
	}
	return ""
}

func c06Explore(res *vResult, cidr string, nsess int, maxStates int, maxDepth int) {
	p0, err := NewIPPool(cidr)
	if err != nil {
		res.finding("c06:construct:"+cidr, "NewIPPool("+cidr+") failed: "+err.Error(), c06Case{CIDR: cidr})
		return
	}
	type node struct {
		p    *IPPool
		r    *refPool
		hist []c06Op
	}
	seen := map[string]bool{c06Key(p0): true}
	frontier := []node{{p0, newRefPool(cidr), nil}}
	states := 1
	for depth := 1; len(frontier) > 0; depth++ {
		if maxDepth > 0 && depth > maxDepth {
			// every history up to maxDepth operations has been executed; the bound is stated in the evidence
			res.Extra["depth_bound_"+cidr] = maxDepth
			break
		}
		var next []node
		for _, n := range frontier {
			for s := uint64(1); s <= uint64(nsess); s++ {
				for _, kind := range []string{"alloc", "release"} {
					op := c06Op{kind, s}
					p, r := c06Clone(n.p), n.r.clone()
					res.Transitions++
					res.Evaluations++
					if v := c06Step(p, r, op); v != "" {
						h := append(append([]c06Op{}, n.hist...), op)
						res.finding("c06:"+strings.SplitN(v, ":", 2)[0]+":"+cidr, v, c06Case{CIDR: cidr, Ops: h})
						continue
					}
					k := c06Key(p)
					if !seen[k] {
						seen[k] = true
						states++
						if states > maxStates {
							res.Extra["truncated_"+cidr] = true
							res.Exhaustive = false
							res.States += int64(states)
							res.Distinct += int64(states)
							return
						}
						next = append(next, node{p, r, append(append([]c06Op{}, n.hist...), op)})
					}
				}
			}
		}
		frontier = next
	}
	res.States += int64(states)
	res.Distinct += int64(states)
	res.Extra["states_"+cidr] = states
}

func TestVerifC06(t *testing.T) {
	vQuietLoggers()
	res := vNewResult()
	defer res.write(t)
	res.Rule = "real IPPool: complete reachable state space (free list x inventory) under {alloc/lookup(s), release(s)} for s in 1..n+1 on /30 and /29 (complete: the frontier empties), every history up to 8 (thorough 13) operations on a /28 and up to 10 (thorough 16) on a /27; " +
		"construction for every prefix length 12..32 and IPv6; end-to-end establishments with the UE IP Address flag lattice reading Created PDR; concurrent part: TestVerifC06Sched (scheduler engine). " +
		"distinct_nontrivial = distinct pool states"
	res.Assumptions = []string{"refPool is a set: in range, never network/broadcast, injective, sticky, release frees exactly that address, refusal iff all held", "prefixes shorter than /12 are skipped (the pool materialises every address)"}
	if rc := vReplayCase(); rc != nil {
		var sc seqCase
		if json.Unmarshal(rc, &sc); len(sc.History) > 0 {
			c06Handlers(res, &sc)
			return
		}
		var cs c06Case
		json.Unmarshal(rc, &cs)
		p, err := NewIPPool(cs.CIDR)
		if err != nil {
			res.finding("c06:construct:"+cs.CIDR, err.Error(), cs)
			return
		}
		r := newRefPool(cs.CIDR)
		for _, op := range cs.Ops {
			if v := c06Step(p, r, op); v != "" {
				res.finding("c06:"+strings.SplitN(v, ":", 2)[0]+":"+cs.CIDR, v, cs)
				return
			}
		}
		res.Evaluations++
		return
	}
	work := []struct {
		cidr  string
		nsess int
		cap   int
		depth int
	}{{"10.250.0.0/30", 3, 1 << 30, 0}, {"10.250.0.8/29", 7, 1 << 30, 0}, {"10.250.0.16/28", 3, 1 << 30, 8}, {"10.250.0.32/27", 2, 1 << 30, 10}, {"192.168.255.252/30", 3, 1 << 30, 0}}
	if vEnv.Thorough {
		// deeper, and size-capped as a safety net (a cap that is hit is reported as exhaustive:false)
		work[2].nsess, work[3].nsess = 4, 3
		work[2].depth, work[3].depth = 13, 16
		work[2].cap, work[3].cap = 3000000, 3000000
	}
	for i, w := range work {
		if vMine(i) {
			c06Explore(res, w.cidr, w.nsess, w.cap, w.depth)
		}
	}
	// construction: every prefix length
	if vMine(5) {
		for l := 12; l <= 32; l++ {
			for _, base := range []string{"10.0.0.0", "10.255.255.255", "172.16.5.77"} {
				cidr := fmt.Sprintf("%s/%d", base, l)
				var p *IPPool
				var err error
				fr, msg := vCatch(func() { p, err = NewIPPool(cidr) })
				res.Evaluations++
				cs := c06Case{CIDR: cidr}
				switch {
				case fr != "":
					res.finding("c06:construct-panic", cidr+": "+msg, cs)
				case err != nil:
					if l <= 30 {
						res.finding("c06:construct-refused", cidr+" refused: "+err.Error(), cs)
					}
				default:
					want := (1 << uint(32-l)) - 2
					r := newRefPool(cidr)
					if l > 30 {
						// below the statement's range (/30 upward): an error or a pool without addresses are both fine
						if len(p.freePool) != 0 {
							res.finding("c06:construct-range", fmt.Sprintf("%s: pool hands out %v", cidr, p.freePool), cs)
						}
					} else if len(p.freePool) != want {
						res.finding("c06:construct-size", fmt.Sprintf("%s: %d addresses, expected %d", cidr, len(p.freePool), want), cs)
					} else {
						for _, ip := range []net.IP{p.freePool[0], p.freePool[len(p.freePool)-1]} {
							if !r.usable[ip.String()] {
								res.finding("c06:construct-range", fmt.Sprintf("%s: pool contains %s", cidr, ip), cs)
							}
						}
					}
				}
			}
		}
		for _, cidr := range []string{"fd00::/126", "::1/128", "10.0.0.0/33", "bogus", ""} { // (an IPv6 /64 would materialise 2^64 addresses: outside the statement)
			fr, msg := vCatch(func() { NewIPPool(cidr) })
			res.Evaluations++
			if fr != "" {
				res.finding("c06:construct-panic", cidr+": "+msg, c06Case{CIDR: cidr})
			}
		}
	}
	// end-to-end: establishments with the UE IP Address flag lattice, pool /30
	if vMine(6) {
		c06EndToEnd(res)
	}
	// handler level: every history of establishments, modifications (accepted and refused ones that ask for the address
	// again) and endings on a pool of two addresses
	if vMine(7) {
		c06Handlers(res, nil)
	}
	res.sample(c06Case{CIDR: "10.250.0.0/30", Ops: []c06Op{{"alloc", 1}, {"alloc", 2}, {"alloc", 3}, {"release", 1}, {"alloc", 3}, {"alloc", 1}}})
}

// c06EndToEnd drives allocation through Session Establishment / Deletion and reads the addresses from Created PDR.
func c06EndToEnd(res *vResult) {
	cfg := vCfg{NConns: 1, UEIPAlloc: true, Pool: "10.250.0.0/30"}
	ex := &seqExplorer{res: res, scenario: cfg}
	s := newSessSys(ex, res, cfg, func(*sessSys) []sessReq { return nil })
	defer s.close()
	s.exec(&sessReq{sReq: sReq{Kind: kAssoc, Conn: 0}})
	r := newRefPool(cfg.Pool)
	held := map[int]string{}
	est := func() *rSess {
		p, f, q := rsChoose()
		ctx := s.exec(&sessReq{sReq: sReq{Kind: kEst, Conn: 0, CPSEID: uint64(len(s.m.Sess) + 1), CreatePDR: p, CreateFAR: f, CreateQER: q}})
		res.Evaluations++
		if !ctx.accepted {
			if len(held) != len(r.usable) {
				res.finding("c06:e2e-refused", fmt.Sprintf("establishment refused with %d of %d addresses held", len(held), len(r.usable)), nil)
			}
			return nil
		}
		ue := ""
		for _, c := range ctx.resp.Created {
			if c.HasU {
				ue = c.UEIP
			}
		}
		if !r.usable[ue] {
			res.finding("c06:e2e-out-of-range", "Created PDR carries UE address "+ue+" outside the usable range of "+cfg.Pool, nil)
		}
		for _, h := range held {
			if h == ue {
				res.finding("c06:e2e-not-exclusive", "UE address "+ue+" handed to two live sessions", nil)
			}
		}
		held[ctx.newSess.Idx] = ue
		return ctx.newSess
	}
	for cycle := 0; cycle < 6; cycle++ {
		a, b := est(), est()
		if c := est(); c != nil {
			res.finding("c06:e2e-overcommit", "a third establishment succeeded on a pool of two addresses", nil)
		}
		for _, x := range []*rSess{a, b} {
			if x != nil {
				s.exec(&sessReq{sReq: sReq{Kind: kDel, Conn: 0}, Sess: x.Idx})
				delete(held, x.Idx)
			}
		}
	}
}

// c06Handlers: SEQ BFS through the real handlers on a /30 pool (two addresses). After every step the pool must hold exactly
// the addresses the live sessions were given (sticky, exclusive, in range, released exactly at the ending), and an
// establishment that is otherwise valid is refused iff both addresses are held.
func c06Handlers(res *vResult, replay *seqCase) {
	cfg := vCfg{NConns: 1, UEIPAlloc: true, Pool: "10.250.0.0/30"}
	ref := newRefPool(cfg.Pool)
	depth := 7
	if vEnv.Thorough {
		depth = 9
	}
	alphabet := func(s *sessSys) []sessReq {
		var out []sessReq
		add := func(label string, r sessReq) {
			r.Label = label
			out = append(out, r)
		}
		if s.m.Assoc[0] == "" || s.m.Gone[0] {
			add("assoc", sessReq{sReq: sReq{Kind: kAssoc, Conn: 0}})
			return out
		}
		live := s.m.live(0)
		if len(live) < 3 {
			p, f, q := rsChoose()
			seid := uint64(10 + len(s.m.Sess))
			add("est-alloc", sessReq{sReq: sReq{Kind: kEst, Conn: 0, CPSEID: seid, CreatePDR: p, CreateFAR: f, CreateQER: q}})
			p2 := append(append([]sPDR{}, p...), sPDR{ID: 9, Prec: 10, Src: ie.SrcInterfaceCore, UEIP: "16.9.9.9", BadSDF: true, FAR: 2})
			add("est-alloc-rejected-later-pdr", sessReq{sReq: sReq{Kind: kEst, Conn: 0, CPSEID: seid, CreatePDR: p2, CreateFAR: f, CreateQER: q}})
			// the uplink rule, too, carries a UE IP Address IE that asks the UP for the address (one address per session)
			pb := append([]sPDR{}, p...)
			pb[0].UEAlloc = true
			add("est-alloc-both-directions", sessReq{sReq: sReq{Kind: kEst, Conn: 0, CPSEID: seid, CreatePDR: pb, CreateFAR: f, CreateQER: q}})
		}
		for _, x := range live {
			add("del", sessReq{sReq: sReq{Kind: kDel, Conn: 0}, Sess: x.Idx})
			p2 := x.pdr(2)
			if p2 == nil {
				continue
			}
			up := p2.sPDR
			add("mod-update-alloc-pdr", sessReq{sReq: sReq{Kind: kMod, Conn: 0, UpdatePDR: []sPDR{up}}, Sess: x.Idx})
			up.BadSDF = true
			add("mod-rejected-update-alloc-pdr", sessReq{sReq: sReq{Kind: kMod, Conn: 0, UpdatePDR: []sPDR{up}}, Sess: x.Idx})
			add("mod-rejected-create-alloc-pdr", sessReq{sReq: sReq{Kind: kMod, Conn: 0, CreatePDR: []sPDR{{ID: 9, Prec: 10, Src: ie.SrcInterfaceCore, UEAlloc: true, BadSDF: true, FAR: 2}}}, Sess: x.Idx})
			if x.pdr(5) == nil {
				add("mod-create-alloc-pdr", sessReq{sReq: sReq{Kind: kMod, Conn: 0, CreatePDR: []sPDR{{ID: 5, Prec: 60, Src: ie.SrcInterfaceCore, UEAlloc: true, SDF: "permit out udp from 10.7.0.0/16 5000 to assigned", FAR: 2}}}, Sess: x.Idx})
			}
			add("mod-rejected-remove-unknown", sessReq{sReq: sReq{Kind: kMod, Conn: 0, RemovePDR: []uint16{99}}, Sess: x.Idx})
			// the downlink rule that was given the address is removed: the session lives on and still holds its address
			add("mod-remove-alloc-pdr", sessReq{sReq: sReq{Kind: kMod, Conn: 0, RemovePDR: []uint16{2}}, Sess: x.Idx})
		}
		if len(live) > 0 {
			add("release", sessReq{sReq: sReq{Kind: kRel, Conn: 0}})
		}
		return out
	}
	pool := func(s *sessSys) (inv map[uint64]string, free []string) {
		p := s.in.u.ippool
		p.mu.Lock()
		defer p.mu.Unlock()
		inv = map[uint64]string{}
		for k, v := range p.inventory {
			inv[k] = v.String()
		}
		for _, v := range p.freePool {
			free = append(free, v.String())
		}
		return
	}
	oracle := func(c *stepCtx) {
		s := c.sys
		bad := func(class, f string, a ...any) {
			s.violation("c06:handlers-"+class+":after="+c.req.Label, fmt.Sprintf(f, a...))
		}
		// what the live sessions were given (model: the addresses read from Created PDR)
		given := map[uint64]string{}
		for _, x := range s.m.live(-1) {
			for _, p := range x.PDRs {
				if p.AllocUE && p.UE != 0 {
					given[x.UPSEID] = int2ip(p.UE).String()
				}
			}
			if x.GivenAddr != 0 {
				given[x.UPSEID] = int2ip(x.GivenAddr).String()
			}
		}
		if c.req.Kind == kEst && c.accepted && c.newSess != nil {
			ue := ""
			for _, cr := range c.resp.Created {
				if cr.HasU {
					ue = cr.UEIP
				}
			}
			if !ref.usable[ue] {
				bad("out-of-range", "Created PDR carries UE address %q, not a usable address of %s", ue, cfg.Pool)
			}
			for seid, h := range given {
				if h == ue && seid != c.newSess.UPSEID {
					bad("not-exclusive", "UE address %s handed to a new session while session %x holds it", ue, seid)
				}
			}
		}
		if (c.req.Label == "est-alloc" || c.req.Label == "est-alloc-both-directions") && !c.accepted && len(given) < len(ref.usable) {
			bad("refused", "establishment refused with %d of %d addresses held", len(given), len(ref.usable))
		}
		inv, free := pool(s)
		if len(inv) != len(given) {
			bad("inventory", "pool holds %v, live sessions were given %v", inv, given)
		} else {
			for k, v := range given {
				if inv[k] != v {
					bad("not-sticky", "pool holds %v, live sessions were given %v", inv, given)
					break
				}
			}
		}
		seen := map[string]bool{}
		for _, v := range inv {
			seen[v] = true
		}
		for _, v := range free {
			if seen[v] || !ref.usable[v] {
				bad("free-list", "free list %v with inventory %v", free, inv)
			}
			seen[v] = true
		}
		if len(seen) != len(ref.usable) {
			bad("lost-address", "free list %v and inventory %v do not add up to the pool", free, inv)
		}
	}
	ex := &seqExplorer{res: res, scenario: cfg, depth: depth}
	ex.mk = func() seqSys {
		s := newSessSys(ex, res, cfg, alphabet, oracle)
		s.poisonOnViolation = true
		// (the order of the free list is not part of the key: Association Release ends sessions in map order)
		return s
	}
	if replay != nil {
		ex.replay(*replay)
		return
	}
	ex.explore(nil)
	res.Distinct += ex.stats.States
	res.addExtra("handler_states", ex.stats.States)
	res.addExtra("handler_transitions", ex.stats.Edges)
	if ex.stats.Truncated {
		res.Extra["handler_bfs_truncated"] = true
	}
}
