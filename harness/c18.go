//go:build verif

// C18 - configuration loading yields a validated configuration or an error. Engine ENUM: a lattice of JSONC
// documents (base document + at most d field deviations) x every placement of comments between tokens is loaded
// by the real LoadConfigFile; each returned Conf is checked against refConf and, differentially, against the
// result for the same document without comments.
package pfcpiface

import (
	"encoding/json"
	"fmt"
	"net"
	"os"
	"path/filepath"
	"reflect"
	"sort"
	"strings"
	"testing"
	"time"

	"go.uber.org/zap/zapcore"
)

const c18Absent = "\x00absent"

type c18Field struct {
	Path string    // dotted path inside the document
	Base [2]string // raw JSON value in the BESS / UP4 base document (c18Absent = not present)
	Alts []string  // other raw JSON values, simplest first
}

// the schema lattice: valid, boundary, invalid-type and invalid-value representatives per field
var c18Fields = []c18Field{
	{"mode", [2]string{`"dpdk"`, c18Absent}, []string{c18Absent, `"af_xdp"`, `"af_packet"`, `"cndp"`, `"sim"`, `""`, `"xdp"`, `5`, `"dpdk"`,
		// near misses that embed a supported mode
		`"dpdk2"`, `" dpdk"`, `"dpdk "`, `"DPDK"`, `"xsim"`, `"sim2"`, `"af_xdp2"`, `"xaf_packet"`, `"cndp_zc"`, `"dpdk|sim"`, `"dpdk\nsim"`}},
	{"enable_p4rt", [2]string{`false`, `true`}, []string{c18Absent, `true`, `false`, `"yes"`}},
	{"p4rtciface.access_ip", [2]string{c18Absent, `"172.17.0.1/32"`}, []string{c18Absent, `"172.17.0.1/32"`, `"172.17.0.1"`, `""`, `7`, `"2001:db8::1/64"`}},
	{"p4rtciface.default_tc", [2]string{c18Absent, c18Absent}, []string{`0`, `3`, `2`, `255`, `256`, `-1`, `"3"`}},
	{"p4rtciface.qfi_tc_mapping", [2]string{c18Absent, `{"9":1}`}, []string{c18Absent, `{}`, `{"0":2,"9":1}`, `{"x":1}`, `{"9":300}`, `[1]`}},
	{"p4rtciface.slice_id", [2]string{c18Absent, `0`}, []string{`15`, `255`, `300`, `-1`}},
	{"p4rtciface.p4rtc_server", [2]string{c18Absent, `"onos"`}, []string{c18Absent, `""`, `1`}},
	{"p4rtciface.clear_state_on_restart", [2]string{c18Absent, `false`}, []string{`true`, `0`}},
	{"cpiface.ue_ip_pool", [2]string{`"10.250.0.0/16"`, `"10.250.0.0/16"`}, []string{c18Absent, `"10.250.0.0"`, `""`, `"10.250.0.0/33"`, `"10.0.0.0/30"`, `"fd00::/64"`, `16`}},
	{"cpiface.enable_ue_ip_alloc", [2]string{`false`, `false`}, []string{c18Absent, `true`, `"true"`}},
	{"cpiface.peers", [2]string{`["148.162.12.214"]`, c18Absent}, []string{c18Absent, `[]`, `["1.2.3.4","5.6.7.8"]`, `["1.2.3.4","x"]`, `[""]`, `["1.2.3.4",""]`, `["::1"]`, `["smf.local"]`, `"1.2.3.4"`, `[1]`, `null`}},
	{"cpiface.hostname", [2]string{c18Absent, c18Absent}, []string{`"upf"`, `""`, `4`}},
	{"cpiface.use_fqdn", [2]string{c18Absent, c18Absent}, []string{`true`, `false`}},
	{"cpiface.dnn", [2]string{`"internet"`, `"internet"`}, []string{c18Absent, `""`}},
	{"cpiface.http_port", [2]string{`"8080"`, `"8080"`}, []string{c18Absent, `8080`}},
	{"read_timeout", [2]string{c18Absent, c18Absent}, []string{`0`, `1`, `15`, `4294967295`, `4294967296`, `-1`, `"15"`, `1.5`}},
	{"max_req_retries", [2]string{`5`, c18Absent}, []string{c18Absent, `0`, `1`, `255`, `256`, `-1`, `"5"`}},
	{"resp_timeout", [2]string{`"2s"`, c18Absent}, []string{c18Absent, `""`, `"1500ms"`, `"0s"`, `"-1s"`, `"abc"`, `"5"`, `5`, `"1h2m"`}},
	{"enable_hbTimer", [2]string{`false`, c18Absent}, []string{c18Absent, `true`, `false`, `1`}},
	{"heart_beat_interval", [2]string{c18Absent, c18Absent}, []string{`""`, `"5s"`, `"100ms"`, `"abc"`, `"10"`, `10`}},
	{"log_level", [2]string{`"info"`, c18Absent}, []string{c18Absent, `"debug"`, `"error"`, `"panic"`, `"bogus"`, `""`, `0`}},
	{"enable_end_marker", [2]string{c18Absent, c18Absent}, []string{`true`, `false`, `"x"`}},
	{"enable_notify_bess", [2]string{c18Absent, c18Absent}, []string{`true`}},
	{"notify_sockaddr", [2]string{c18Absent, c18Absent}, []string{`"/tmp/notifycp"`, `5`}},
	{"conn_timeout", [2]string{c18Absent, c18Absent}, []string{`1000`, `"1000"`}},
	{"measure_flow", [2]string{`false`, c18Absent}, []string{`true`}},
	{"access.ifname", [2]string{`"ens803f2"`, c18Absent}, []string{c18Absent, `""`, `3`}},
	{"core.ifname", [2]string{`"ens803f3"`, c18Absent}, []string{c18Absent}},
	{"sim.start_ue_ip", [2]string{c18Absent, c18Absent}, []string{`"16.0.0.1"`, `"bad"`, `16`}},
	{"sim.max_sessions", [2]string{c18Absent, c18Absent}, []string{`50000`, `-5`}},
	{"qci_qos_config", [2]string{`[{"qci":0,"cbs":50000,"ebs":50000,"pbs":50000,"burst_duration_ms":10,"priority":7}]`, c18Absent},
		[]string{c18Absent, `[]`, `[{"qci":9,"cbs":2048,"ebs":2048,"pbs":2048,"priority":6},{"qci":0,"cbs":1}]`, `[{"qci":300}]`, `{"qci":1}`}},
	{"slice_rate_limit_config", [2]string{c18Absent, c18Absent}, []string{`{"n6_bps":500000000,"n6_burst_bytes":625000,"n3_bps":500000000,"n3_burst_bytes":625000}`, `{"n6_bps":-1}`, `{"n6_bps":18446744073709551615}`}},
	{"table_sizes", [2]string{`{"pdrLookup":50000}`, c18Absent}, []string{c18Absent}},
	{"workers", [2]string{`1`, c18Absent}, []string{`"many"`}},
}

// c18Doc is one concrete document: the chosen raw value per field.
type c18Doc struct {
	Base int               `json:"base"` // 0 BESS, 1 UP4
	Dev  map[string]string `json:"dev"`  // path -> raw value (deviations from the base)
}

func (d c18Doc) value(f c18Field) string {
	if v, ok := d.Dev[f.Path]; ok {
		return v
	}
	return f.Base[d.Base]
}

// tokens serialises the document into JSON tokens (so that comments can be placed between any two of them).
func (d c18Doc) tokens() []string {
	type node struct {
		leaf string
		kids map[string]*node
		ord  []string
	}
	root := &node{kids: map[string]*node{}}
	for _, f := range c18Fields {
		v := d.value(f)
		if v == c18Absent {
			continue
		}
		parts := strings.Split(f.Path, ".")
		n := root
		for i, p := range parts {
			c, ok := n.kids[p]
			if !ok {
				c = &node{kids: map[string]*node{}}
				n.kids[p] = c
				n.ord = append(n.ord, p)
			}
			if i == len(parts)-1 {
				c.leaf = v
			}
			n = c
		}
	}
	var toks []string
	var emit func(n *node)
	emit = func(n *node) {
		if n.leaf != "" {
			toks = append(toks, c18Tokenize(n.leaf)...)
			return
		}
		toks = append(toks, "{")
		for i, k := range n.ord {
			if i > 0 {
				toks = append(toks, ",")
			}
			toks = append(toks, fmt.Sprintf("%q", k), ":")
			emit(n.kids[k])
		}
		toks = append(toks, "}")
	}
	emit(root)
	return toks
}

// c18Tokenize splits a raw JSON value into tokens (strings stay whole).
func c18Tokenize(raw string) []string {
	var out []string
	for i := 0; i < len(raw); {
		c := raw[i]
		switch {
		case c == ' ':
			i++
		case strings.ContainsRune("{}[],:", rune(c)):
			out = append(out, string(c))
			i++
		case c == '"':
			j := i + 1
			for j < len(raw) && raw[j] != '"' {
				if raw[j] == '\\' {
					j++
				}
				j++
			}
			out = append(out, raw[i:j+1])
			i = j + 1
		default:
			j := i
			for j < len(raw) && !strings.ContainsRune("{}[],: ", rune(raw[j])) {
				j++
			}
			out = append(out, raw[i:j])
			i = j
		}
	}
	return out
}

// c18Render joins tokens; ins maps a gap index (0..len(toks)) to the comment text inserted there.
func c18Render(toks []string, ins map[int]string) string {
	var b strings.Builder
	for i := 0; i <= len(toks); i++ {
		if c, ok := ins[i]; ok {
			b.WriteString(c)
		}
		if i < len(toks) {
			b.WriteString(toks[i])
			b.WriteByte(' ')
		}
	}
	return b.String()
}

var c18Comments = []string{
	"// plain line comment\n",
	"/* plain block comment */",
	"// \"quoted\": {1, [2]} , https://example.org/x /* not a block\n",
	"/* \"k\": // 1, } ] */",
	"//\n",
	"/**/",
	"/*/ tricky */",
	"/* a */ /* b */",
	"// a\n// b\n",
	"/***/",
}

type c18Outcome struct {
	Err   bool
	Panic string
	Conf  Conf
}

func c18Load(path, text string) c18Outcome {
	if err := os.WriteFile(path, []byte(text), 0o644); err != nil {
		panic(err)
	}
	var o c18Outcome
	fr, msg := vCatch(func() {
		c, err := LoadConfigFile(path)
		o.Conf, o.Err = c, err != nil
	})
	if fr != "" {
		o.Panic = fr + ": " + msg
	}
	return o
}

// refConf: what must hold for every configuration that LoadConfigFile returns without error.
func c18RefConf(c Conf) string {
	if _, err := time.ParseDuration(c.RespTimeout); err != nil {
		return "resp_timeout does not parse: " + c.RespTimeout
	}
	if c.MaxReqRetries == 0 {
		return "max_req_retries is 0 (default 5 not filled in)"
	}
	if c.ReadTimeout == 0 {
		return "read_timeout is 0 (default 15 not filled in)"
	}
	if c.EnableHBTimer {
		if _, err := time.ParseDuration(c.HeartBeatInterval); err != nil {
			return "heart_beat_interval does not parse: " + c.HeartBeatInterval
		}
	}
	if c.EnableP4rt {
		if c.Mode != "" {
			return "mode set for P4"
		}
		if _, _, err := net.ParseCIDR(c.P4rtcIface.AccessIP); err != nil {
			return "access_ip does not parse"
		}
		if _, _, err := net.ParseCIDR(c.CPIface.UEIPPool); err != nil {
			return "ue_ip_pool does not parse (P4)"
		}
	} else {
		switch c.Mode {
		case "af_xdp", "af_packet", "cndp", "dpdk", "sim":
		default:
			return "unsupported mode " + c.Mode
		}
	}
	if c.CPIface.EnableUeIPAlloc {
		if _, _, err := net.ParseCIDR(c.CPIface.UEIPPool); err != nil {
			return "ue_ip_pool does not parse although UE IP allocation is enabled"
		}
	}
	for _, p := range c.CPIface.Peers {
		if net.ParseIP(p) == nil {
			return "peer does not parse: " + p
		}
	}
	return ""
}

// c18Defaults checks the documented defaults against what the document said (semantic record of the generator).
func c18Defaults(d c18Doc, c Conf) string {
	get := func(path string) string {
		for _, f := range c18Fields {
			if f.Path == path {
				return d.value(f)
			}
		}
		return c18Absent
	}
	if v := get("resp_timeout"); (v == c18Absent || v == `""`) && c.RespTimeout != "2s" {
		return "resp_timeout default is not 2s: " + c.RespTimeout
	}
	if v := get("max_req_retries"); (v == c18Absent || v == "0") && c.MaxReqRetries != 5 {
		return fmt.Sprint("max_req_retries default is not 5: ", c.MaxReqRetries)
	}
	if v := get("read_timeout"); (v == c18Absent || v == "0") && c.ReadTimeout != 15 {
		return fmt.Sprint("read_timeout default is not 15: ", c.ReadTimeout)
	}
	if v := get("heart_beat_interval"); c.EnableHBTimer && (v == c18Absent || v == `""`) && c.HeartBeatInterval != "5s" {
		return "heart_beat_interval default is not 5s: " + c.HeartBeatInterval
	}
	if v := get("log_level"); v == c18Absent && c.LogLevel != zapcore.InfoLevel {
		return "log_level default is not info: " + c.LogLevel.String()
	}
	if v := get("p4rtciface.default_tc"); v == c18Absent && c.P4rtcIface.DefaultTC != 3 {
		return fmt.Sprint("default_tc default is not 3: ", c.P4rtcIface.DefaultTC)
	}
	// values that were given and are plain scalars must arrive unchanged
	chk := func(path string, got string) string {
		v := get(path)
		if v != c18Absent && strings.HasPrefix(v, `"`) && v != `""` && got != strings.Trim(v, `"`) {
			return fmt.Sprintf("%s: document says %s, configuration has %q", path, v, got)
		}
		return ""
	}
	for _, x := range [][2]string{{"mode", c.Mode}, {"resp_timeout", c.RespTimeout}, {"heart_beat_interval", c.HeartBeatInterval},
		{"cpiface.ue_ip_pool", c.CPIface.UEIPPool}, {"p4rtciface.access_ip", c.P4rtcIface.AccessIP}, {"cpiface.dnn", c.CPIface.Dnn},
		{"cpiface.hostname", c.CPIface.NodeID}, {"access.ifname", c.AccessIface.IfName}} {
		if x[0] == "heart_beat_interval" && !c.EnableHBTimer {
			continue
		}
		if s := chk(x[0], x[1]); s != "" {
			return s
		}
	}
	return ""
}

type c18Case struct {
	Doc  *c18Doc        `json:"doc,omitempty"`
	Ins  map[int]string `json:"ins,omitempty"`
	Text string         `json:"text,omitempty"` // raw text cases (truncations, byte mutations, samples)
	File string         `json:"file,omitempty"`
}

func TestVerifC18(t *testing.T) {
	vQuietLoggers()
	res := vNewResult()
	defer res.write(t)
	res.Rule = "documents = base(BESS|UP4) + <=d deviations over the 34-field value lattice (quick d=2, thorough d=3); every document is loaded " +
		"plain and with every placement of each comment form in every token gap (two simultaneous comments for d<=1); plus every truncation " +
		"and a byte-mutation neighbourhood of the base documents, multi-line comments and comment markers inside strings, and all conf/*.jsonc. " +
		"distinct_nontrivial = distinct (document, comment placement) inputs that loaded successfully and passed refConf, plus distinct rejected documents"
	res.Assumptions = []string{"the file system returns what was written", "refConf encodes the statement: defaults 2s/5/15/5s/info/TC3, durations parse, mode set, CIDRs and peers parse"}
	tmp := filepath.Join(vScratchDir(), fmt.Sprintf("c18-%d-%d.jsonc", os.Getpid(), vEnv.Shard))
	defer os.Remove(tmp)

	runText := func(cs c18Case, wantSame *c18Outcome) c18Outcome {
		text := cs.Text
		if cs.Doc != nil {
			text = c18Render(cs.Doc.tokens(), cs.Ins)
		}
		o := c18Load(tmp, text)
		res.Evaluations++
		switch {
		case o.Panic != "":
			res.finding("c18:panic:"+strings.SplitN(o.Panic, ":", 2)[0], "LoadConfigFile panicked: "+o.Panic, cs)
		case !o.Err:
			if s := c18RefConf(o.Conf); s != "" {
				res.finding("c18:invalid-conf:"+strings.SplitN(s, ":", 2)[0], "returned configuration violates the contract: "+s+" for "+text, cs)
			} else if cs.Doc != nil {
				if s := c18Defaults(*cs.Doc, o.Conf); s != "" {
					res.finding("c18:value:"+strings.SplitN(s, ":", 2)[0], s+" for "+text, cs)
				}
			}
		}
		if wantSame != nil && o.Panic == "" && wantSame.Panic == "" {
			if o.Err != wantSame.Err || (!o.Err && !reflect.DeepEqual(o.Conf, wantSame.Conf)) {
				res.finding("c18:comment-changes-result", fmt.Sprintf("comment placement changes the result (err %v -> %v): %s", wantSame.Err, o.Err, text), cs)
			}
		}
		return o
	}

	if rc := vReplayCase(); rc != nil {
		var cs c18Case
		if err := json.Unmarshal(rc, &cs); err != nil {
			t.Fatal(err)
		}
		if cs.File != "" {
			b, _ := os.ReadFile(cs.File)
			cs.Text = string(b)
		}
		var base *c18Outcome
		if cs.Doc != nil && len(cs.Ins) > 0 {
			o := runText(c18Case{Doc: cs.Doc}, nil)
			base = &o
		}
		runText(cs, base)
		return
	}

	// ---- enumerate the document lattice
	depth := 2
	if vEnv.Thorough {
		depth = 3
	}
	type dev struct{ path, val string }
	var docs []c18Doc
	for base := 0; base < 2; base++ {
		var devs []dev
		for _, f := range c18Fields {
			for _, a := range f.Alts {
				if a != f.Base[base] {
					devs = append(devs, dev{f.Path, a})
				}
			}
		}
		var rec func(start int, cur []dev)
		rec = func(start int, cur []dev) {
			d := c18Doc{Base: base, Dev: map[string]string{}}
			for _, x := range cur {
				d.Dev[x.path] = x.val
			}
			docs = append(docs, d)
			if len(cur) == depth {
				return
			}
			for i := start; i < len(devs); i++ {
				dup := false
				for _, x := range cur {
					if x.path == devs[i].path {
						dup = true
					}
				}
				if !dup {
					rec(i+1, append(append([]dev{}, cur...), devs[i]))
				}
			}
		}
		rec(0, nil)
	}
	res.Extra["documents"] = len(docs)
	accepted, rejected := 0, 0
	for di, d := range docs {
		if !vMine(di) {
			continue
		}
		if res.expired() {
			break
		}
		doc := d
		base := runText(c18Case{Doc: &doc}, nil)
		if base.Panic != "" {
			continue
		}
		if base.Err {
			rejected++
		} else {
			accepted++
		}
		res.Distinct++
		toks := doc.tokens()
		ndev := len(doc.Dev)
		forms := c18Comments
		if ndev >= 2 {
			forms = c18Comments[:2]
		}
		if ndev >= 3 {
			continue // depth-3 documents are loaded plain only
		}
		for gap := 0; gap <= len(toks); gap++ {
			for _, cm := range forms {
				runText(c18Case{Doc: &doc, Ins: map[int]string{gap: cm}}, &base)
				if !base.Err {
					res.Distinct++
				}
			}
		}
		if ndev <= 1 && (vEnv.Thorough || ndev == 0) {
			for g1 := 0; g1 <= len(toks); g1++ {
				for g2 := g1; g2 <= len(toks); g2++ {
					for k := 0; k < 4; k++ {
						ins := map[int]string{g1: c18Comments[k&1]}
						if g2 == g1 {
							ins[g1] = c18Comments[k&1] + c18Comments[k>>1]
						} else {
							ins[g2] = c18Comments[k>>1]
						}
						runText(c18Case{Doc: &doc, Ins: ins}, &base)
						if !base.Err {
							res.Distinct++
						}
					}
				}
			}
		}
	}
	res.Extra["sum_documents_accepted"] = accepted
	res.Extra["sum_documents_rejected"] = rejected
	res.sample(map[string]any{"document": c18Render(docs[0].tokens(), map[int]string{3: c18Comments[1]})})
	res.sample(map[string]any{"document": c18Render(docs[len(docs)/2].tokens(), map[int]string{5: c18Comments[2]})})

	// ---- raw-text neighbourhood: only crash-freedom and validity of a returned configuration are asserted
	if vMine(0) {
		for base := 0; base < 2; base++ {
			text := c18Render(c18Doc{Base: base}.tokens(), nil)
			for i := 0; i <= len(text); i++ {
				runText(c18Case{Text: text[:i]}, nil)
			}
			for i := 0; i < len(text); i++ {
				for _, b := range []byte{0, 0xFF, text[i] + 1, text[i] - 1, text[i] ^ 0x20, '"', '/', '*', '\n'} {
					if b != text[i] {
						runText(c18Case{Text: text[:i] + string([]byte{b}) + text[i+1:]}, nil)
					}
				}
			}
		}
		for _, txt := range []string{
			"", "{}", "[]", "null", "{\"mode\":\"dpdk\" /* multi\nline */}", "{\"mode\":\"dpdk\", \"cpiface\":{\"hostname\":\"http://x\"}}",
			"{\"mode\":\"dp/*x*/dk\"}", "{\"mode\":\"dpdk\"} // trailing", "// only a comment", "/* unterminated", "{\"mode\":\"dpdk\"}\n/*\n*/",
			"{\"mode\":\"dpdk\",\"resp_timeout\":\"2s//\"}", "{\"mode\":\"sim\",\"read_timeout\":1e1}", "{\"mode\":\"dpdk\",\"mode\":\"bogus\"}",
			"{\"enable_p4rt\":true,\"p4rtciface\":{\"access_ip\":\"1.1.1.1/32\"},\"cpiface\":{\"ue_ip_pool\":\"10.0.0.0/8\"},\"enable_p4rt\":false}",
		} {
			runText(c18Case{Text: txt}, nil)
		}
	}
	// ---- every sample configuration shipped in the repository must load
	samples, _ := filepath.Glob(filepath.Join(vEnv.Repo, "conf", "*.jsonc"))
	for _, g := range []string{"ptf/config/*.jsonc", "test/integration/config/*.json*", "conf/*.json"} {
		more, _ := filepath.Glob(filepath.Join(vEnv.Repo, g))
		samples = append(samples, more...)
	}
	sort.Strings(samples)
	for i, f := range samples {
		if !vMine(i) {
			continue
		}
		b, err := os.ReadFile(f)
		if err != nil {
			continue
		}
		o := runText(c18Case{Text: string(b), File: f}, nil)
		if o.Err && filepath.Base(f) == "upf.jsonc" {
			res.finding("c18:sample-does-not-load:"+filepath.Base(f), "shipped sample configuration does not load: "+f, c18Case{File: f})
		}
	}
	res.Extra["sample_files"] = len(samples)
}
