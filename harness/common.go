//go:build verif

// Common worker-side plumbing of the /verif harness: environment, sharding, result/evidence records,
// findings with replay payloads, journal, deadline, quiet loggers with Fatal turned into a panic.
package pfcpiface

import (
	"encoding/json"
	"fmt"
	"hash/fnv"
	"os"
	"reflect"
	"runtime"
	"runtime/debug"
	"sort"
	"strconv"
	"strings"
	"sync"
	"testing"
	"time"
	"unsafe"

	"github.com/omec-project/upf-epc/logger"
	"go.uber.org/zap"
	"go.uber.org/zap/zapcore"
)

type vFinding struct {
	Sig    string `json:"sig"`
	Desc   string `json:"desc"`
	Replay any    `json:"replay"`
}

type vResult struct {
	mu          sync.Mutex
	Evaluations int64          `json:"evaluations"`
	States      int64          `json:"states"`
	Transitions int64          `json:"transitions"`
	Distinct    int64          `json:"distinct"`
	Traces      int64          `json:"traces"`
	Samples     []any          `json:"samples"`
	Findings    []vFinding     `json:"findings"`
	Exhaustive  bool           `json:"exhaustive"`
	Rule        string         `json:"rule"`
	Assumptions []string       `json:"assumptions"`
	Extra       map[string]any `json:"extra"`
	Outcomes    map[string]int `json:"outcomes"`

	seenSig  map[string]bool
	distinct map[uint64]struct{}
	start    time.Time
	deadline time.Time
	journalF *os.File
}

type vEnvT struct {
	Tier     string
	Shard    int
	NShards  int
	Seed     int64
	Out      string
	Dir      string
	Repo     string
	Work     string
	Replay   string
	Thorough bool
}

var vEnv = func() vEnvT {
	e := vEnvT{Tier: os.Getenv("VERIF_TIER"), Out: os.Getenv("VERIF_OUT"), Dir: os.Getenv("VERIF_DIR"),
		Repo: os.Getenv("VERIF_REPO"), Work: os.Getenv("VERIF_WORK"), Replay: os.Getenv("VERIF_REPLAY")}
	e.Shard, _ = strconv.Atoi(os.Getenv("VERIF_SHARD"))
	e.NShards, _ = strconv.Atoi(os.Getenv("VERIF_NSHARDS"))
	if e.NShards < 1 {
		e.NShards = 1
	}
	e.Seed, _ = strconv.ParseInt(os.Getenv("VERIF_SEED"), 10, 64)
	if e.Tier == "" {
		e.Tier = "quick"
	}
	if e.Dir == "" {
		e.Dir = "/verif"
	}
	if e.Repo == "" {
		e.Repo = "/repo"
	}
	if e.Work == "" {
		e.Work = os.TempDir()
	}
	e.Thorough = e.Tier == "thorough"
	return e
}()

func vNewResult() *vResult {
	r := &vResult{Exhaustive: true, Extra: map[string]any{}, Outcomes: map[string]int{}, seenSig: map[string]bool{},
		distinct: map[uint64]struct{}{}, start: time.Now(), Samples: []any{}, Findings: []vFinding{}}
	d, _ := strconv.Atoi(os.Getenv("VERIF_DEADLINE_S"))
	if d <= 0 {
		d = 3600
	}
	r.deadline = r.start.Add(time.Duration(d) * time.Second)
	if j := os.Getenv("VERIF_JOURNAL"); j != "" {
		r.journalF, _ = os.OpenFile(j, os.O_CREATE|os.O_WRONLY|os.O_TRUNC, 0o644)
	}
	return r
}

// mine tells whether work item idx belongs to this shard (rotated by the seed: the explored set is the
// same for every seed, only the assignment of items to workers changes).
func vMine(idx int) bool {
	return (idx+int(vEnv.Seed%int64(vEnv.NShards))+vEnv.NShards)%vEnv.NShards == vEnv.Shard
}

func (r *vResult) expired() bool {
	if time.Now().After(r.deadline) {
		r.mu.Lock()
		r.Exhaustive = false
		r.Extra["deadline_hit"] = true
		r.mu.Unlock()
		return true
	}
	return false
}

// journal records the case about to be executed so that the orchestrator can attribute a worker death.
func (r *vResult) journal(c any) {
	if r.journalF == nil {
		return
	}
	b, _ := json.Marshal(c)
	r.journalF.WriteAt(append(b, '\n'), 0)
	r.journalF.Truncate(int64(len(b) + 1))
}

func (r *vResult) finding(sig, desc string, replay any) {
	r.mu.Lock()
	defer r.mu.Unlock()
	if r.seenSig[sig] {
		return
	}
	r.seenSig[sig] = true
	r.Findings = append(r.Findings, vFinding{Sig: sig, Desc: desc, Replay: replay})
}

func (r *vResult) sample(s any) {
	r.mu.Lock()
	defer r.mu.Unlock()
	if len(r.Samples) < 4 {
		r.Samples = append(r.Samples, s)
	}
}

// markDistinct counts a non-trivial case once per distinct key.
func (r *vResult) markDistinct(key string) {
	h := fnv.New64a()
	h.Write([]byte(key))
	k := h.Sum64()
	r.mu.Lock()
	if _, ok := r.distinct[k]; !ok {
		r.distinct[k] = struct{}{}
		r.Distinct++
	}
	r.mu.Unlock()
}

func (r *vResult) outcome(k string) {
	r.mu.Lock()
	r.Outcomes[k]++
	r.mu.Unlock()
}

func (r *vResult) addExtra(k string, n int64) {
	r.mu.Lock()
	cur, _ := r.Extra[k].(int64)
	r.Extra[k] = cur + n
	r.mu.Unlock()
}

func (r *vResult) write(t *testing.T) {
	r.mu.Lock()
	defer r.mu.Unlock()
	r.Extra["worker_wall_s_max"] = nil
	delete(r.Extra, "worker_wall_s_max")
	r.Extra["max_worker_wall_s"] = float64(int(time.Since(r.start).Seconds()*10)) / 10
	sort.Slice(r.Findings, func(i, j int) bool { return r.Findings[i].Sig < r.Findings[j].Sig })
	b, err := json.Marshal(r)
	if err != nil {
		t.Fatalf("marshal result: %v", err)
	}
	if vEnv.Out == "" {
		fmt.Println(string(b))
		return
	}
	if err := os.WriteFile(vEnv.Out+".tmp", b, 0o644); err != nil {
		t.Fatalf("write result: %v", err)
	}
	os.Rename(vEnv.Out+".tmp", vEnv.Out)
}

// vReplayCase returns the case recorded in a replay artefact (nil when the run is not a replay).
func vReplayCase() json.RawMessage {
	if vEnv.Replay == "" {
		return nil
	}
	b, err := os.ReadFile(vEnv.Replay)
	if err != nil {
		panic(err)
	}
	var body struct {
		Case json.RawMessage `json:"case"`
	}
	if err := json.Unmarshal(b, &body); err != nil {
		panic(err)
	}
	return body.Case
}

// vQuietLoggers replaces the repository's exported loggers by ones that discard output and turn Fatal into a
// panic (so that an os.Exit inside the code under test is observed as a crash of the case, not of the worker).
func vQuietLoggers() {
	core := zapcore.NewNopCore()
	if os.Getenv("VERIF_LOG") != "" {
		enc := zapcore.NewConsoleEncoder(zap.NewDevelopmentEncoderConfig())
		core = zapcore.NewCore(enc, zapcore.AddSync(os.Stderr), zapcore.DebugLevel)
	}
	l := zap.New(vFatalCore{core}, zap.WithFatalHook(zapcore.WriteThenPanic)).Sugar()
	logger.BessLog, logger.DockerLog, logger.InitLog, logger.P4Log, logger.PfcpLog = l, l, l, l, l
	// the bess plug-in gives its per-request goroutines one second of REAL time (GRPCJoin) and then answers anyway: under
	// load, or in a worker that has been running for minutes with a large heap, a stall of that length makes a request look
	// accepted while its entries are not installed yet. Wall-clock time-outs must never decide anything here.
	Timeout = 30 * time.Minute
}

// vFatalCore lets Fatal-level entries through a no-op core so that the fatal hook runs.
type vFatalCore struct{ zapcore.Core }

func (c vFatalCore) Check(e zapcore.Entry, ce *zapcore.CheckedEntry) *zapcore.CheckedEntry {
	if e.Level >= zapcore.DPanicLevel {
		return ce.AddCore(e, c)
	}
	return c.Core.Check(e, ce)
}
func (c vFatalCore) With(f []zapcore.Field) zapcore.Core { return vFatalCore{c.Core.With(f)} }

// vRepoFrame returns the innermost stack frame that lies in the repository's own (non-harness) code.
func vRepoFrame(skip int) string {
	pcs := make([]uintptr, 64)
	n := runtime.Callers(skip, pcs)
	fr := runtime.CallersFrames(pcs[:n])
	for {
		f, more := fr.Next()
		if strings.Contains(f.File, "/pfcpiface/") && !strings.Contains(f.File, "zz_verif_") &&
			!strings.Contains(f.File, "/internal/verif/") {
			fn := f.Function
			if i := strings.LastIndex(fn, "/"); i >= 0 {
				fn = fn[i+1:]
			}
			fn = strings.TrimPrefix(fn, "pfcpiface.")
			return fn
		}
		if !more {
			return "unknown"
		}
	}
}

// vCatch runs f and converts a panic into (frame, message).
func vCatch(f func()) (frame string, msg string) {
	defer func() {
		if e := recover(); e != nil {
			frame = vRepoFrame(3)
			msg = fmt.Sprint(e)
			if os.Getenv("VERIF_STACK") != "" {
				fmt.Fprintf(os.Stderr, "PANIC %v\n%s\n", e, debug.Stack())
			}
			if len(msg) > 160 {
				msg = msg[:160]
			}
		}
	}()
	f()
	return "", ""
}

func vJSON(x any) string {
	b, _ := json.Marshal(x)
	return string(b)
}

// vScratchDir returns a directory for short-lived per-process scratch files (tmpfs when available).
func vScratchDir() string {
	if st, err := os.Stat("/dev/shm"); err == nil && st.IsDir() {
		d := "/dev/shm/verif-scratch"
		if os.MkdirAll(d, 0o755) == nil {
			return d
		}
	}
	return vEnv.Work
}

// vLeakedLock names a lock of the shared allocators that is still held although no handler is running (the SEQ harnesses
// call it between requests): the next request that needs the allocator would block its receive loop for good.
func vLeakedLock(u *upf) string {
	if g := u.fteidGenerator; g != nil {
		if !g.lock.TryLock() {
			return "FTEIDGenerator.lock"
		}
		g.lock.Unlock()
	}
	if p := u.ippool; p != nil {
		if !p.mu.TryLock() {
			return "IPPool.mu"
		}
		p.mu.Unlock()
	}
	return ""
}

// vSetField sets the (unexported) field of *obj by name if it exists and takes the value; false otherwise.
func vSetField(obj any, name string, val any) bool {
	v := reflect.ValueOf(obj).Elem().FieldByName(name)
	if !v.IsValid() {
		return false
	}
	rv := reflect.ValueOf(val)
	if !rv.Type().AssignableTo(v.Type()) {
		return false
	}
	reflect.NewAt(v.Type(), unsafe.Pointer(v.UnsafeAddr())).Elem().Set(rv)
	return true
}

// vFieldValue returns the (unexported) field of *obj by name as a value that may be read and, for channels, closed and
// received from; the zero Value if there is no such field.
func vFieldValue(obj any, name string) reflect.Value {
	v := reflect.ValueOf(obj)
	if v.Kind() != reflect.Ptr || v.IsNil() {
		return reflect.Value{}
	}
	f := v.Elem().FieldByName(name)
	if !f.IsValid() {
		return reflect.Value{}
	}
	return reflect.NewAt(f.Type(), unsafe.Pointer(f.UnsafeAddr())).Elem()
}

// vGoroutineParked tells whether there is a goroutine whose stack holds a frame of the named function and every such
// goroutine is blocked in the given state (e.g. "chan receive"): a loop of an earlier instance that is still parked must
// not stand in for the loop of the current one.
func vGoroutineParked(fn, state string) bool {
	buf := make([]byte, 1<<20)
	buf = buf[:runtime.Stack(buf, true)]
	found := false
	for _, g := range strings.Split(string(buf), "\n\n") {
		if strings.Contains(g, fn) {
			found = true
			if hdr := strings.SplitN(g, "\n", 2)[0]; !strings.Contains(hdr, "["+state) {
				return false
			}
		}
	}
	return found
}
