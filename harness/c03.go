//go:build verif

// C03 - BESS tables are exactly the image of the live sessions' rules. Engine SEQ: BFS over establishment /
// modification / deletion histories on the real handlers + real bess plug-in + fake BESS; after every step the
// fake's tables are compared with the denotation of the model's live rules (structurally per entry, and by
// classifying boundary packets); plus kill-and-restart at every gRPC command index.
package pfcpiface

import (
	"encoding/json"
	"fmt"
	"math"
	"sort"
	"testing"

	"github.com/wmnsk/go-pfcp/ie"
)

// refBox is the denotation of one PDR as a conjunction of per-field constraints (Appendix A.1 of DESIGN.md).
type refBox struct {
	v, m     [fbNF]uint64
	sLo, sHi uint16
	dLo, dHi uint16
	strict   bool // false: the filter is outside the envelope in which the statement fixes a meaning
	why      string
}

func pdrBox(p *rPDR, pfd map[string][]string) refBox {
	b := refBox{sHi: 0xFFFF, dHi: 0xFFFF, strict: true}
	up := p.Src == ie.SrcInterfaceAccess
	if up {
		b.v[fbSrcIface] = access
	} else if p.Src == ie.SrcInterfaceCore {
		b.v[fbSrcIface] = core
	} else {
		b.strict, b.why = false, "source interface outside the alphabet"
	}
	b.m[fbSrcIface] = 0xFF
	if p.TEID != 0 {
		b.v[fbTunDst], b.m[fbTunDst] = uint64(p.TunIP), 0xFFFFFFFF
		b.v[fbTEID], b.m[fbTEID] = uint64(p.TEID), 0xFFFFFFFF
	}
	ueF, remF, remPortIsSrc := fbSrcIP, fbDstIP, false
	if !up {
		ueF, remF, remPortIsSrc = fbDstIP, fbSrcIP, true
	}
	if p.UE != 0 {
		b.v[ueF], b.m[ueF] = uint64(p.UE), 0xFFFFFFFF
	}
	desc := p.SDF
	if p.App != "" {
		// the flow description provisioned for the application whose keyword is "out" for uplink / "in" for downlink
		// PDRs (the association the code makes), taken verbatim: source -> packet source, destination -> packet destination
		b.strict, b.why = false, "application id (decided by C08)"
		desc = ""
	}
	if desc != "" {
		rf, err := refParseFlow(desc)
		var rem, ueSide refEndpoint
		if err == nil {
			rem, ueSide = rf.Src, rf.Dst
			if rf.Src.Assigned && !rf.Dst.Assigned {
				rem, ueSide = rf.Dst, rf.Src // the endpoints written in the other order: the remote one is the one that is not 'assigned'
			}
		}
		switch {
		case err != nil:
			b.strict, b.why = false, "malformed flow description"
		case !ueSide.Assigned || rem.Assigned:
			b.strict, b.why = false, "no side (or both sides) of the flow description is 'assigned'"
		case ueSide.HasPort:
			b.strict, b.why = false, "port on the UE side"
		case rf.Proto == 0 || rf.Proto == 255:
			b.strict, b.why = false, "protocol 0/255"
		case rem.HasPort && rem.Lo == 0 && rem.Hi == 0:
			b.strict, b.why = false, "port 0"
		case rem.HasPort && rem.Hi-rem.Lo >= 100 && !(rem.Lo == 0 && rem.Hi == 65535):
			b.strict, b.why = false, "range wider than the Exact strategy expands (refused after acceptance; C17's)"
		default:
			if rf.Proto >= 0 {
				b.v[fbProto], b.m[fbProto] = uint64(rf.Proto), 0xFF
			}
			b.v[remF], b.m[remF] = uint64(rem.IP), uint64(refMask(rem.Len))
			if rem.HasPort {
				if remPortIsSrc {
					b.sLo, b.sHi = rem.Lo, rem.Hi
				} else {
					b.dLo, b.dHi = rem.Lo, rem.Hi
				}
			}
		}
	}
	return b
}

func (b *refBox) matches(p fbPacket) bool {
	for i := 0; i < fbNF; i++ {
		if i == fbSrcPort || i == fbDstPort {
			continue
		}
		if p[i]&b.m[i] != b.v[i]&b.m[i] {
			return false
		}
	}
	return p[fbSrcPort] >= uint64(b.sLo) && p[fbSrcPort] <= uint64(b.sHi) && p[fbDstPort] >= uint64(b.dLo) && p[fbDstPort] <= uint64(b.dHi)
}

type c03Viol struct{ class, desc string }

// bessImageCheck compares the fake BESS tables with the image of the model's live sessions.
func bessImageCheck(s *sessSys) []c03Viol {
	var out []c03Viol
	bad := func(class, f string, a ...any) { out = append(out, c03Viol{class, fmt.Sprintf(f, a...)}) }
	fb := s.in.fb
	type lp struct {
		s   *rSess
		p   *rPDR
		box refBox
	}
	var lps []lp
	live := s.m.live(-1)
	for _, x := range live {
		for i := range x.PDRs {
			lps = append(lps, lp{x, &x.PDRs[i], pdrBox(&x.PDRs[i], s.m.PFD[x.Conn])})
		}
	}
	// application-level QERs as the datapath sees them: (session, qer) pairs present in appQERLookup
	appQ := map[string]int{}
	sessQ := map[uint64]int{}
	for _, e := range fb.qosList(AppQerLookup) {
		if len(e.Fields) == 3 {
			appQ[fmt.Sprintf("%d/%d", e.Fields[2], e.Fields[1])]++
		}
	}
	for _, e := range fb.qosList(SessQerLookup) {
		if len(e.Fields) == 2 {
			sessQ[e.Fields[1]]++
		}
	}
	// ---- pdrLookup: every entry attributable to a live PDR and inside its denotation; every PDR covered exactly
	entries := fb.pdrList()
	byPDR := map[string][]*fbPDR{}
	for _, e := range entries {
		byPDR[fmt.Sprintf("%d/%d", e.FSEID, e.PdrID)] = append(byPDR[fmt.Sprintf("%d/%d", e.FSEID, e.PdrID)], e)
	}
	known := map[string]bool{}
	for _, l := range lps {
		k := fmt.Sprintf("%d/%d", l.s.UPSEID, l.p.ID)
		known[k] = true
		es := byPDR[k]
		if !l.box.strict {
			continue
		}
		if len(es) == 0 {
			bad("pdr-missing", "no pdrLookup entry for PDR %d of session #%d", l.p.ID, l.s.Idx)
			continue
		}
		var prod []portRangeTernaryCartesianProduct
		for _, e := range es {
			for _, i := range []int{fbSrcIface, fbTunDst, fbTEID, fbSrcIP, fbDstIP, fbProto} {
				if e.Values[i] != l.box.v[i]&l.box.m[i] || e.Masks[i] != l.box.m[i] {
					bad(fmt.Sprintf("pdr-field%d", i), "PDR %d of session #%d: field %d is %#x/%#x, the rule denotes %#x/%#x", l.p.ID, l.s.Idx, i, e.Values[i], e.Masks[i], l.box.v[i]&l.box.m[i], l.box.m[i])
				}
			}
			prod = append(prod, portRangeTernaryCartesianProduct{srcPort: uint16(e.Values[fbSrcPort]), srcMask: uint16(e.Masks[fbSrcPort]), dstPort: uint16(e.Values[fbDstPort]), dstMask: uint16(e.Masks[fbDstPort])})
			if e.Far != uint64(l.p.FAR) {
				bad("pdr-far", "PDR %d of session #%d points to FAR %d, rule says %d", l.p.ID, l.s.Idx, e.Far, l.p.FAR)
			}
			if (e.Gate == 1) != l.p.Decap || e.Gate > 1 {
				bad("pdr-decap", "PDR %d of session #%d: decap gate %d, rule says %v", l.p.ID, l.s.Idx, e.Gate, l.p.Decap)
			}
			// first application QER
			if len(l.p.QERs) == 0 {
				if e.Qer != 0 {
					bad("pdr-qer", "PDR %d of session #%d carries QER %d but the rule has none", l.p.ID, l.s.Idx, e.Qer)
				}
			} else {
				in, anyApp := false, false
				for _, q := range l.p.QERs {
					if uint64(q) == e.Qer {
						in = true
					}
					if appQ[fmt.Sprintf("%d/%d", l.s.UPSEID, q)] > 0 {
						anyApp = true
					}
				}
				if !in {
					bad("pdr-qer", "PDR %d of session #%d carries QER %d which is not in its list %v", l.p.ID, l.s.Idx, e.Qer, l.p.QERs)
				} else if anyApp && appQ[fmt.Sprintf("%d/%d", l.s.UPSEID, e.Qer)] == 0 {
					bad("pdr-qer-not-app", "PDR %d of session #%d carries QER %d which is not an application-level one although the rule has one", l.p.ID, l.s.Idx, e.Qer)
				} else if anyApp {
					// the FIRST application QER: the first identifier of the list as the control plane sent it that is installed
					// as an application QER (which QER is the session-wide one is read from the tables, not prescribed)
					for _, q := range l.p.QERs {
						if appQ[fmt.Sprintf("%d/%d", l.s.UPSEID, q)] > 0 {
							if uint64(q) != e.Qer {
								bad("pdr-qer-not-first", "PDR %d of session #%d carries QER %d, the first application QER of its list %v is %d", l.p.ID, l.s.Idx, e.Qer, l.p.QERs, q)
							}
							break
						}
					}
				}
			}
		}
		if v := c17CheckProduct(portRange{l.box.sLo, l.box.sHi}, portRange{l.box.dLo, l.box.dHi}, prod); v != "" {
			bad("pdr-ports", "PDR %d of session #%d: port expansion wrong: %s", l.p.ID, l.s.Idx, v)
		}
	}
	for k, es := range byPDR {
		if !known[k] {
			bad("pdr-stale", "pdrLookup holds %d entr(ies) (session %#x PDR %d) that no live PDR denotes", len(es), es[0].FSEID, es[0].PdrID)
		}
	}
	// two entries of the same PDR that differ in a non-port field: one of them is stale (e.g. old match key)
	for k, es := range byPDR {
		for _, e := range es[1:] {
			for _, i := range []int{fbSrcIface, fbTunDst, fbTEID, fbSrcIP, fbDstIP, fbProto} {
				if e.Values[i] != es[0].Values[i] || e.Masks[i] != es[0].Masks[i] {
					bad("pdr-stale-key", "PDR %s has entries under different match keys", k)
				}
			}
		}
	}
	// priorities order entries as precedences do
	type pe struct {
		prec uint32
		prio int64
	}
	var pes []pe
	for _, l := range lps {
		for _, e := range byPDR[fmt.Sprintf("%d/%d", l.s.UPSEID, l.p.ID)] {
			pes = append(pes, pe{l.p.Prec, e.Priority})
		}
	}
	for i := range pes {
		for j := range pes {
			if pes[i].prec < pes[j].prec && !(pes[i].prio > pes[j].prio) {
				bad("pdr-priority", "precedence %d < %d but priority %d <= %d", pes[i].prec, pes[j].prec, pes[i].prio, pes[j].prio)
			}
		}
	}
	// ---- classification of boundary packets
	allStrict := true
	for _, l := range lps {
		if !l.box.strict {
			allStrict = false
		}
	}
	if allStrict {
		for _, l := range lps {
			for _, pk := range boundaryPackets(&l.box) {
				var win *lp
				tie := false
				for i := range lps {
					if lps[i].box.matches(pk) {
						switch {
						case win == nil || lps[i].p.Prec < win.p.Prec:
							win, tie = &lps[i], false
						case lps[i].p.Prec == win.p.Prec:
							tie = true
						}
					}
				}
				got, gtie := fb.classify(pk)
				s.res.addExtra("sum_packets_classified", 1)
				switch {
				case win == nil && got != nil:
					bad("classify-extra", "packet %v matches no live PDR but is classified to session %#x PDR %d", pk, got.FSEID, got.PdrID)
				case win != nil && got == nil:
					bad("classify-miss", "packet %v matches PDR %d of session #%d but no entry matches", pk, win.p.ID, win.s.Idx)
				case win != nil && !tie && !gtie && (got.FSEID != win.s.UPSEID || got.PdrID != uint64(win.p.ID)):
					bad("classify-wrong", "packet %v: reference winner PDR %d of session #%d, datapath winner PDR %d of session %#x", pk, win.p.ID, win.s.Idx, got.PdrID, got.FSEID)
				}
			}
		}
	}
	// ---- farLookup
	fars := map[string]*fbFAR{}
	for _, e := range fb.farList() {
		fars[fmt.Sprintf("%d/%d", e.FSEID, e.FarID)] = e
	}
	for _, x := range live {
		for _, f := range x.FARs {
			k := fmt.Sprintf("%d/%d", x.UPSEID, f.ID)
			e := fars[k]
			delete(fars, k)
			if e == nil {
				bad("far-missing", "no farLookup entry for FAR %d of session #%d", f.ID, x.Idx)
				continue
			}
			act, strict, tt, src, dst, teid, port := farExpect(&f)
			if e.Values[0] != act {
				bad("far-action", "FAR %d of session #%d: action %d, rule denotes %d", f.ID, x.Idx, e.Values[0], act)
			}
			if strict && (e.Values[1] != tt || e.Gate != tt || e.Values[2] != src || e.Values[3] != dst || e.Values[4] != teid || e.Values[5] != port) {
				bad("far-params", "FAR %d of session #%d: (type,src,dst,teid,port)=%v gate %d, rule denotes (%d,%s,%s,%d,%d)", f.ID, x.Idx, e.Values[1:], e.Gate, tt, vIPStr(uint32(src)), vIPStr(uint32(dst)), teid, port)
			}
		}
	}
	for k := range fars {
		bad("far-stale", "farLookup holds entry %s that no live FAR denotes", k)
	}
	// ---- QER tables: every live QER has one UL and one DL entry in exactly one table; nothing else
	for _, x := range live {
		nonApp := 0
		for _, q := range x.QERs {
			k := fmt.Sprintf("%d/%d", x.UPSEID, q.ID)
			switch appQ[k] {
			case 2:
			case 0:
				nonApp++
			default:
				bad("qer-app-half", "QER %d of session #%d has %d appQERLookup entries", q.ID, x.Idx, appQ[k])
			}
			delete(appQ, k)
		}
		switch {
		case nonApp > 1:
			bad("qer-missing", "%d QERs of session #%d are in neither QER table", nonApp, x.Idx)
		case nonApp == 1 && sessQ[x.UPSEID] != 2:
			bad("qer-missing", "a QER of session #%d is not in appQERLookup and sessionQERLookup has %d entries for the session", x.Idx, sessQ[x.UPSEID])
		case nonApp == 0 && sessQ[x.UPSEID] != 0:
			bad("qer-both-tables", "every QER of session #%d is in appQERLookup, yet sessionQERLookup has %d entries for it", x.Idx, sessQ[x.UPSEID])
		}
		delete(sessQ, x.UPSEID)
	}
	for k := range appQ {
		bad("qer-stale", "appQERLookup holds entries for %s that no live QER denotes", k)
	}
	for k := range sessQ {
		bad("qer-stale", "sessionQERLookup holds entries for session %#x that no live QER denotes", k)
	}
	sort.Slice(out, func(i, j int) bool { return out[i].class < out[j].class })
	return out
}

func farExpect(f *sFAR) (action uint64, strict bool, tt, src, dst, teid, port uint64) {
	switch {
	case f.Action&ActionForward != 0:
		if !f.HasFwd || !f.HasDst {
			return 0, false, 0, 0, 0, 0, 0
		}
		strict = true
		if f.Dst == ie.DstInterfaceAccess {
			action, src = farForwardD, uint64(vIP4(vN3Addr))
		} else {
			action, src = farForwardU, uint64(vIP4(vN6Addr))
		}
		if f.OHCIP != "" {
			tt, dst, teid, port = 1, uint64(vIP4(f.OHCIP)), uint64(f.OHCTEID), tunnelGTPUPort
		}
	case f.Action&ActionDrop != 0:
		action = farDrop
	default:
		action = farNotify
	}
	return
}

// boundaryPackets: the centre of the box and, per field, the values just outside and on the edges.
func boundaryPackets(b *refBox) []fbPacket {
	var c fbPacket
	for i := 0; i < fbNF; i++ {
		c[i] = b.v[i] & b.m[i]
	}
	c[fbSrcPort], c[fbDstPort] = uint64(b.sLo), uint64(b.dLo)
	if b.m[fbProto] == 0 {
		c[fbProto] = 17
	}
	if b.m[fbSrcIP] == 0 {
		c[fbSrcIP] = uint64(vIP4("8.8.8.8"))
	}
	if b.m[fbDstIP] == 0 {
		c[fbDstIP] = uint64(vIP4("9.9.9.9"))
	}
	out := []fbPacket{c}
	vary := func(i int, vals ...uint64) {
		for _, v := range vals {
			p := c
			p[i] = v & (uint64(1)<<fbFieldBits[i] - 1)
			out = append(out, p)
		}
	}
	for i := 0; i < fbNF; i++ {
		switch i {
		case fbSrcPort:
			vary(i, uint64(b.sLo)-1, uint64(b.sLo), uint64(b.sHi), uint64(b.sHi)+1, 0, 65535)
		case fbDstPort:
			vary(i, uint64(b.dLo)-1, uint64(b.dLo), uint64(b.dHi), uint64(b.dHi)+1, 0, 65535)
		case fbSrcIface:
			vary(i, access, core, 0)
		case fbProto:
			vary(i, 6, 17, 1, c[i]+1)
		default:
			lo := b.v[i] & b.m[i]
			hi := lo | (^b.m[i] & (uint64(1)<<fbFieldBits[i] - 1))
			vary(i, lo-1, lo, hi, hi+1, 0)
		}
	}
	// two fields at a time: each pair of "just outside" values
	n := len(out)
	for a := 1; a < n && a < 24; a += 3 {
		for bI := a + 1; bI < n && bI < 24; bI += 4 {
			p := out[a]
			for i := 0; i < fbNF; i++ {
				if out[bI][i] != c[i] {
					p[i] = out[bI][i]
				}
			}
			out = append(out, p)
		}
	}
	return out
}

// ------------------------------------------------------------------------------------------------ alphabet

func sdfPDRs(base uint16, ue string, teid uint32, prec uint32, desc string, far1, far2 uint32, qers []uint32) []sPDR {
	return []sPDR{
		{ID: base, Prec: prec, Src: ie.SrcInterfaceAccess, FTEID: &sFTEID{TEID: teid, IP: vN3Addr}, UEIP: ue, SDF: desc, Decap: true, FAR: far1, QERs: qers},
		{ID: base + 1, Prec: prec, Src: ie.SrcInterfaceCore, UEIP: ue, SDF: desc, FAR: far2, QERs: qers},
	}
}

var c03SDFs = []string{
	"permit out udp from 10.1.0.0/16 80 to assigned",
	"permit out tcp from 10.2.3.4 1000-1003 to assigned",
	"permit out ip from 10.0.0.0/8 to assigned",
	"permit out 17 from 192.168.1.1/31 to assigned",
	"permit out ip from any to assigned",
	"permit out 6 from 0.0.0.0/0 65535 to assigned",
}

func c03Alphabet(s *sessSys) []sessReq {
	var out []sessReq
	add := func(label string, r sessReq) {
		r.Label = label
		out = append(out, r)
	}
	nconn := len(s.in.conns)
	maxSess := 3
	for c := 0; c < nconn; c++ {
		if s.m.Assoc[c] == "" {
			add("assoc", sessReq{sReq: sReq{Kind: kAssoc, Conn: c}})
			if c == 0 && len(s.m.Sess) == 0 {
				p, f, q := rsBasic("16.0.0.9", 0x900, "11.1.1.129")
				add("est-no-assoc", sessReq{sReq: sReq{Kind: kEst, Conn: c, CPSEID: 9, CreatePDR: p, CreateFAR: f, CreateQER: q}})
			}
			continue
		}
		n := len(s.m.Sess)
		ue := fmt.Sprintf("16.0.%d.%d", c, n+1)
		teid := uint32(0x100 + n)
		if len(s.m.live(-1)) < maxSess && len(s.m.live(c)) < 2 {
			p, f, q := rsBasic(ue, teid, "11.1.1.129")
			add("est-basic", sessReq{sReq: sReq{Kind: kEst, Conn: c, CPSEID: uint64(10 + n), CreatePDR: p, CreateFAR: f, CreateQER: q}})
			if c == 0 {
				// the same rules with the IEs of every PDR and PDI in reverse order (any order is legal on the wire)
				pr := append([]sPDR{}, p...)
				for i := range pr {
					pr[i].Rev = true
				}
				add("est-basic-reversed-ies", sessReq{sReq: sReq{Kind: kEst, Conn: c, CPSEID: uint64(10 + n), CreatePDR: pr, CreateFAR: f, CreateQER: q}})
			}
			if c == 0 {
				// two application QERs + one session-wide one, CHOOSE on the uplink PDR when the pool allows
				p2, f2, _ := rsBasic(ue, teid, "11.1.1.130")
				p2[0].QERs, p2[1].QERs = []uint32{1, 4}, []uint32{2, 4}
				q2 := []sQER{{ID: 1, QFI: 5, MBRUL: 1000, MBRDL: 1000}, {ID: 2, QFI: 5, MBRUL: 2000, MBRDL: 2000, GateDL: 1}, {ID: 4, QFI: 0, MBRUL: 90000, MBRDL: 90000}}
				add("est-3qer", sessReq{sReq: sReq{Kind: kEst, Conn: c, CPSEID: uint64(10 + n), CreatePDR: p2, CreateFAR: f2, CreateQER: q2}})
				// QER lists of three identifiers with the session-wide QER first / in the middle
				p3, f3, _ := rsBasic(ue, teid, "11.1.1.130")
				p3[0].QERs, p3[1].QERs = []uint32{4, 1, 2}, []uint32{2, 4, 1}
				add("est-3qer-lists-of-3", sessReq{sReq: sReq{Kind: kEst, Conn: c, CPSEID: uint64(10 + n), CreatePDR: p3, CreateFAR: f3, CreateQER: q2}})
				// SDF pairs above default rules. (An SDF whose remote side is "any" has the same match key as the default
				// rule; BESS keeps one entry per key and which of the two concurrent adds lands last is schedule dependent,
				// so that family is used without default rules here and left to the scheduler engine.)
				for si, d := range c03SDFs {
					if si >= 2 && !vEnv.Thorough && si != 3 {
						continue
					}
					p3, f3, q3 := rsBasic(ue, teid, "11.1.1.129")
					p3[0].Prec, p3[1].Prec = 200, 200
					if rf, err := refParseFlow(d); err == nil && rf.Src.Len == 0 && rf.Proto < 0 && !rf.Src.HasPort {
						p3 = nil
					}
					p3 = append(p3, sdfPDRs(3, ue, teid, uint32(50+si), d, 1, 2, []uint32{1})...)
					add(fmt.Sprintf("est-sdf%d", si), sessReq{sReq: sReq{Kind: kEst, Conn: c, CPSEID: uint64(10 + n), CreatePDR: p3, CreateFAR: f3, CreateQER: q3}})
				}
				// no QER, drop / buffer+notify FARs, extreme precedences
				p4, f4, _ := rsBasic(ue, teid, "11.1.1.129")
				p4[0].QERs, p4[1].QERs = nil, nil
				p4[0].Prec, p4[1].Prec = 0, math.MaxUint32
				f4[0] = sFAR{ID: 1, Action: ActionDrop}
				f4[1] = sFAR{ID: 2, Action: ActionBuffer | ActionNotify}
				add("est-noqer-drop-buffer", sessReq{sReq: sReq{Kind: kEst, Conn: c, CPSEID: uint64(10 + n), CreatePDR: p4, CreateFAR: f4}})
				if s.in.cfg.UEIPAlloc {
					p5, f5, q5 := rsChoose()
					add("est-choose", sessReq{sReq: sReq{Kind: kEst, Conn: c, CPSEID: uint64(10 + n), CreatePDR: p5, CreateFAR: f5, CreateQER: q5}})
				}
			}
		}
		for _, x := range s.m.live(c) {
			add("del", sessReq{sReq: sReq{Kind: kDel, Conn: c}, Sess: x.Idx})
			if c != 0 {
				continue
			}
			xue := ""
			var xteid uint32
			for _, p := range x.PDRs {
				if p.UEIP != "" {
					xue = p.UEIP
				}
				if p.FTEID != nil && p.FTEID.TEID != 0 {
					xteid = p.FTEID.TEID
				}
			}
			if f := x.far(2); f != nil {
				add("mod-ufar-fwd-no-dst-interface", sessReq{sReq: sReq{Kind: kMod, Conn: c, UpdateFAR: []sFAR{{ID: 2, Action: ActionForward, HasFwd: true, OHCIP: "11.1.1.141", OHCTEID: 0x7778}}}, Sess: x.Idx})
				add("mod-ufar-fwd", sessReq{sReq: sReq{Kind: kMod, Conn: c, UpdateFAR: []sFAR{{ID: 2, Action: ActionForward, HasFwd: true, HasDst: true, Dst: ie.DstInterfaceAccess, OHCIP: "11.1.1.140", OHCTEID: 0x7777}}}, Sess: x.Idx})
				if f.Action&ActionForward != 0 {
					add("mod-ufar-buffer", sessReq{sReq: sReq{Kind: kMod, Conn: c, UpdateFAR: []sFAR{{ID: 2, Action: ActionBuffer | ActionNotify, HasFwd: true}}}, Sess: x.Idx})
				}
			}
			if f1, f2 := x.far(1), x.far(2); f1 != nil && f2 != nil && f1.Action&ActionForward != 0 && f1.OHCIP == "" {
				// several Update FARs in one request, the one that carries a tunnel in front of one that carries none (and the other
				// way round): each FAR is programmed with its own parameters
				u2 := sFAR{ID: 2, Action: ActionForward, HasFwd: true, HasDst: true, Dst: ie.DstInterfaceAccess, OHCIP: "11.1.1.142", OHCTEID: 0x7779}
				u1 := sFAR{ID: 1, Action: ActionForward, HasFwd: true, HasDst: true, Dst: ie.DstInterfaceCore}
				add("mod-ufar-tunnel-then-plain", sessReq{sReq: sReq{Kind: kMod, Conn: c, UpdateFAR: []sFAR{u2, u1}}, Sess: x.Idx})
				add("mod-ufar-plain-then-tunnel", sessReq{sReq: sReq{Kind: kMod, Conn: c, UpdateFAR: []sFAR{u1, u2}}, Sess: x.Idx})
			}
			add("mod-ufar-unknown", sessReq{sReq: sReq{Kind: kMod, Conn: c, UpdateFAR: []sFAR{{ID: 77, Action: ActionDrop, HasFwd: true}}}, Sess: x.Idx})
			if xue != "" && xteid != 0 {
				if x.pdr(5) == nil && x.pdr(6) == nil && x.far(3) == nil && x.qer(7) == nil {
					np := sdfPDRs(5, xue, xteid, 40, "permit out udp from 10.9.0.0/16 53 to assigned", 3, 3, []uint32{7})
					add("mod-create", sessReq{sReq: sReq{Kind: kMod, Conn: c, CreatePDR: np, CreateFAR: []sFAR{{ID: 3, Action: ActionDrop}}, CreateQER: []sQER{{ID: 7, QFI: 7, MBRUL: 10, MBRDL: 10}}}, Sess: x.Idx})
					if x.qer(4) != nil && x.qer(1) != nil && x.far(1) != nil && x.far(2) != nil {
						// rules created by a modification that list the session-wide QER in front of their application QER
						ns := sdfPDRs(5, xue, xteid, 41, "permit out udp from 10.9.0.0/16 54 to assigned", 1, 2, []uint32{4, 1})
						add("mod-create-sessqer-first", sessReq{sReq: sReq{Kind: kMod, Conn: c, CreatePDR: ns}, Sess: x.Idx})
					}
				}
				if p := x.pdr(1); p != nil {
					// same match key: only precedence / FAR / decap change
					np := p.sPDR
					np.Prec = p.Prec + 7
					np.FAR = 2
					add("mod-updr-samekey", sessReq{sReq: sReq{Kind: kMod, Conn: c, UpdatePDR: []sPDR{np}}, Sess: x.Idx})
					// new match key: an SDF filter is added / changed
					nk := p.sPDR
					if nk.SDF == "" {
						nk.SDF = "permit out tcp from 10.7.7.0/24 443 to assigned"
					} else {
						nk.SDF = ""
					}
					add("mod-updr-newkey", sessReq{sReq: sReq{Kind: kMod, Conn: c, UpdatePDR: []sPDR{nk}}, Sess: x.Idx})
					if p.FTEID != nil && !p.FTEID.Choose {
						// a request that is refused (Remove FAR of an unknown rule) after its Update PDR moved the rule to a new
						// tunnel endpoint: nothing of it may stay behind, neither in the tables nor in what a later deletion removes
						nt := p.sPDR
						ft := *p.FTEID
						ft.TEID ^= 0x40
						nt.FTEID = &ft
						add("mod-updr-newteid-refused-remove-unknown", sessReq{sReq: sReq{Kind: kMod, Conn: c, UpdatePDR: []sPDR{nt}, RemoveFAR: []uint32{99}}, Sess: x.Idx})
					}
				}
			}
			if xue != "" && xteid != 0 && x.pdr(5) == nil && x.pdr(6) == nil && x.far(1) != nil && x.far(2) != nil {
				np := sdfPDRs(5, xue, xteid, 40, "permit out udp from 10.9.0.0/16 53 to assigned", 1, 2, nil)
				add("mod-create-then-remove-unknown", sessReq{sReq: sReq{Kind: kMod, Conn: c, CreatePDR: np, RemovePDR: []uint16{99}}, Sess: x.Idx})
				// ... and the same with a Remove IE that names an existing rule in front of the unknown one
				add("mod-create-then-remove-known-and-unknown", sessReq{sReq: sReq{Kind: kMod, Conn: c, CreatePDR: np, RemovePDR: []uint16{x.PDRs[0].ID, 99}}, Sess: x.Idx})
			}
			if q := x.qer(1); q != nil {
				nq := *q
				nq.MBRDL += 5
				nq.GateUL ^= 1
				add("mod-uqer", sessReq{sReq: sReq{Kind: kMod, Conn: c, UpdateQER: []sQER{nq}}, Sess: x.Idx})
			}
			q4common := len(x.PDRs) > 0
			for _, p := range x.PDRs {
				has := false
				for _, id := range p.QERs {
					if id == 4 {
						has = true
					}
				}
				q4common = q4common && has
			}
			// (only while QER 4 is still referenced by every PDR: once a modification has made it an ordinary QER, the
			// stale session-table entries are the recorded finding c09:limiter-also-app, not something to re-report here)
			if q := x.qer(4); q != nil && q.MBRDL < 90020 && q4common {
				// the session-wide QER alone (an AMBR change): nothing else in the message
				nq := *q
				nq.MBRDL += 5
				nq.MBRUL += 5
				add("mod-uqer-session", sessReq{sReq: sReq{Kind: kMod, Conn: c, UpdateQER: []sQER{nq}}, Sess: x.Idx})
			}
			if q := x.qer(4); q != nil && !q.HasGBR && q4common {
				// the session-wide QER is given a guaranteed bit rate (it keeps its role: its entries are programmed under it)
				nq := *q
				nq.HasGBR, nq.GBRUL, nq.GBRDL = true, 500, 500
				add("mod-uqer-session-gbr", sessReq{sReq: sReq{Kind: kMod, Conn: c, UpdateQER: []sQER{nq}}, Sess: x.Idx})
			}
			if len(x.PDRs) > 0 {
				first, last := x.PDRs[0].ID, x.PDRs[len(x.PDRs)-1].ID
				add("mod-rpdr-first", sessReq{sReq: sReq{Kind: kMod, Conn: c, RemovePDR: []uint16{first}}, Sess: x.Idx})
				if last != first {
					add("mod-rpdr-last", sessReq{sReq: sReq{Kind: kMod, Conn: c, RemovePDR: []uint16{last}}, Sess: x.Idx})
				}
				if len(x.PDRs) >= 4 {
					add("mod-rpdr-two", sessReq{sReq: sReq{Kind: kMod, Conn: c, RemovePDR: []uint16{x.PDRs[1].ID, x.PDRs[2].ID}}, Sess: x.Idx})
				}
				add("mod-rpdr-valid-then-unknown", sessReq{sReq: sReq{Kind: kMod, Conn: c, RemovePDR: []uint16{first, 99}}, Sess: x.Idx})
			}
			if x.far(3) != nil && x.pdr(5) == nil && x.pdr(6) == nil {
				add("mod-rfar-rqer", sessReq{sReq: sReq{Kind: kMod, Conn: c, RemoveFAR: []uint32{3}, RemoveQER: []uint32{7}}, Sess: x.Idx})
			}
			if x.pdr(5) != nil && x.pdr(6) != nil {
				add("mod-remove-created", sessReq{sReq: sReq{Kind: kMod, Conn: c, RemovePDR: []uint16{5, 6}, RemoveFAR: []uint32{3}, RemoveQER: []uint32{7}}, Sess: x.Idx})
			}
		}
		if c == 0 {
			add("del-unknown", sessReq{sReq: sReq{Kind: kDel, Conn: c}, Sess: -1})
			p, f, q := rsBasic("16.0.9.9", 0x999, "11.1.1.129")
			add("mod-unknown", sessReq{sReq: sReq{Kind: kMod, Conn: c, CreatePDR: p, CreateFAR: f, CreateQER: q}, Sess: -1})
		}
	}
	return out
}

func c03Oracle(c *stepCtx) {
	s := c.sys
	if c.pframe != "" {
		s.violation("c03:panic:"+c.pframe, "handler panicked on "+c.req.Label+": "+c.pmsg)
		return
	}
	// requests naming an unknown session / arriving without a matching association are rejected and write nothing
	unknown := (c.req.Kind == kMod || c.req.Kind == kDel) && c.sess == nil
	noAssoc := c.req.Kind == kEst && s.m.Assoc[c.req.Conn] == ""
	if unknown || noAssoc {
		if c.accepted {
			s.violation("c03:accepted-unaddressed:"+c.req.Label, c.req.Label+" was accepted")
		}
		if n := s.in.fb.ncommands() - c.cmd0; n != 0 {
			s.violation("c03:rejected-wrote:"+c.req.Label, fmt.Sprintf("%s was rejected but %d datapath command(s) were issued", c.req.Label, n))
		}
	}
	if c.accepted && (c.req.Kind == kEst || c.req.Kind == kMod || c.req.Kind == kDel) {
		s.res.outcome("accepted-" + c.req.Kind)
	}
	// after every response the tables must be the image of the live rules as of the last accepted request. The statement
	// speaks of the state after *accepted* requests: a divergence seen after a rejected one is reported only if it is
	// still there after a further, accepted request (an establishment of a fresh session on the same association).
	if s.confirming {
		return
	}
	vs := bessImageCheck(s)
	if len(vs) == 0 {
		return
	}
	v := vs[0]
	if !c.accepted && s.m.Assoc[c.req.Conn] != "" {
		s.confirming = true
		p, f, q := rsBasic("16.0.200.1", 0xC800, "11.1.1.200")
		for i := range p {
			p[i].ID += 100
			p[i].FAR += 100
			p[i].QERs = []uint32{101}
		}
		f[0].ID, f[1].ID, q[0].ID = 101, 102, 101
		pc := s.exec(&sessReq{sReq: sReq{Kind: kEst, Conn: c.req.Conn, CPSEID: 0xC8, CreatePDR: p, CreateFAR: f, CreateQER: q}, Label: "confirm-est"})
		s.confirming = false
		still := false
		for _, w := range bessImageCheck(s) {
			if w.class == v.class {
				still = true
			}
		}
		if !pc.accepted || !still {
			return
		}
		v.desc += "; still so after a further accepted establishment"
		// whatever table shows it first, the cause is one: a rejected request left traces in the datapath
		v.class = "rejected-request-left-traces"
	}
	s.violation("c03:"+v.class+":after="+c.req.Label, v.desc+" (after "+c.req.Label+")")
}

type c03Scenario struct {
	Name  string `json:"name"`
	Cfg   vCfg   `json:"cfg"`
	Crash *struct {
		K int `json:"k"`
	} `json:"crash,omitempty"`
}

func TestVerifC03(t *testing.T) {
	vQuietLoggers()
	res := vNewResult()
	defer res.write(t)
	res.Rule = "BFS over histories of association / establishment (basic, 3 QERs, SDF families, no QER + drop/buffer FARs, CHOOSE) / modification (update FAR fwd<->buffer, " +
		"create rules, update PDR same key / new key, update QER, remove first/last/two PDRs, remove valid-then-unknown, remove FAR+QER) / deletion / unknown-session " +
		"requests over 2 associations x <=3 sessions; after every step the fake BESS tables are compared entry by entry with the denotation of the live rules and " +
		"boundary packets are classified; then kill-and-restart at every gRPC command index of every history up to depth 3. " +
		"distinct_nontrivial = distinct canonical states + distinct (history, kill index) restart cases"
	res.Assumptions = []string{"fake BESS renders WildcardMatch/ExactMatch/Qos semantics: add = upsert by key, delete of an absent key = error, clear empties",
		"the rule denotation of DESIGN.md appendix A.1-A.3", "acceptance is observed on the wire, not predicted"}
	depth := 5
	if vEnv.Thorough {
		depth = 6
	}
	scs := []c03Scenario{
		{Name: "bess-1assoc", Cfg: vCfg{NConns: 1}},
		{Name: "bess-2assoc-uealloc", Cfg: vCfg{NConns: 2, UEIPAlloc: true, Pool: "10.250.0.0/29"}},
	}
	mk := func(ex *seqExplorer, sc c03Scenario) func() seqSys {
		return func() seqSys {
			s := newSessSys(ex, res, sc.Cfg, c03Alphabet, c03Oracle)
			s.poisonOnViolation = true
			return s
		}
	}
	if rc := vReplayCase(); rc != nil {
		var c seqCase
		json.Unmarshal(rc, &c)
		var sc c03Scenario
		json.Unmarshal(c.Scenario, &sc)
		ex := &seqExplorer{res: res, scenario: sc, depth: depth}
		if sc.Crash != nil {
			c03CrashCase(res, ex, sc, c.History, sc.Crash.K)
			return
		}
		ex.mk = mk(ex, sc)
		ex.replay(c)
		return
	}
	item := 0
	for _, sc := range scs {
		sc := sc
		// split by the first two operations: (assoc, x)
		ex0 := &seqExplorer{res: res, scenario: sc}
		ex0.mk = mk(ex0, sc)
		probe := ex0.mk()
		probe.apply(probe.ops()[0])
		n2 := len(probe.ops())
		probe.close()
		for r := 0; r < n2; r++ {
			r := r
			if vMine(item) {
				ex := &seqExplorer{res: res, scenario: sc, depth: depth}
				ex.mk = mk(ex, sc)
				ex.prefixFilter = func(h []seqOp, i int) bool {
					switch len(h) {
					case 0:
						return i == 0
					case 1:
						return i == r
					}
					return true
				}
				ex.explore(nil)
				res.Distinct += ex.stats.States
			}
			item++
		}
	}
	res.Extra["bfs_depth"] = depth
	res.sample(map[string]any{"scenario": "bess-1assoc", "history": []string{"assoc", "est-sdf0", "mod-updr-samekey", "mod-rpdr-first", "del"}})
	c03Crash(res, scs[0])
}

// c03Crash: for every history up to depth 3 (small alphabet) and every k, the agent dies after the k-th gRPC command;
// a new incarnation runs the real SetUpfInfo against the same, still populated fake and must start from empty tables.
func c03Crash(res *vResult, sc c03Scenario) {
	small := func(s *sessSys) []sessReq {
		var keep []sessReq
		for _, r := range c03Alphabet(s) {
			switch r.Label {
			case "assoc", "est-basic", "est-3qer", "est-sdf1", "mod-create", "mod-ufar-fwd", "mod-rpdr-first", "del", "mod-uqer":
				keep = append(keep, r)
			}
		}
		return keep
	}
	var hists [][]seqOp
	ex := &seqExplorer{res: &vResult{Extra: map[string]any{}, seenSig: map[string]bool{}, distinct: map[uint64]struct{}{}, Outcomes: map[string]int{}, deadline: res.deadline}, scenario: sc, depth: 3}
	ex.mk = func() seqSys {
		s := newSessSys(ex, ex.res, sc.Cfg, small)
		s.poisonOnViolation = true
		return s
	}
	ex.onState = func(sys seqSys, h []seqOp) {
		if len(h) >= 2 {
			hists = append(hists, append([]seqOp{}, h...))
		}
	}
	ex.explore(nil)
	item := 0
	for _, h := range hists {
		item++
		if !vMine(item) {
			continue
		}
		if res.expired() {
			return
		}
		// number of commands of the full history
		ex2 := &seqExplorer{res: res, scenario: sc}
		total := c03CrashCase(res, ex2, sc, h, -1)
		for k := 0; k <= total; k++ {
			c03CrashCase(res, ex2, sc, h, k)
			res.Distinct++
		}
	}
	res.Extra["crash_histories"] = len(hists)
	res.sample(map[string]any{"restart": "history of depth<=3, agent killed after the k-th gRPC command, new incarnation via the real SetUpfInfo over gRPC", "histories": len(hists)})
}

// c03CrashCase runs history h, with the datapath going deaf after command k (k<0: never), then restarts. Returns the
// number of commands the history issued after start-up.
func c03CrashCase(res *vResult, ex *seqExplorer, sc c03Scenario, h []seqOp, k int) int {
	cs := sc
	cs.Crash = &struct {
		K int `json:"k"`
	}{k}
	ex.scenario = cs
	ex.cur = append(ex.cur[:0], h...)
	res.journal(ex.replayCase())
	s := newSessSys(ex, res, sc.Cfg, c03Alphabet)
	fb := s.in.fb
	base := fb.ncommands()
	if k >= 0 {
		fb.mu.Lock()
		fb.deadAfter = base + k
		fb.mu.Unlock()
	}
	for _, op := range h {
		s.apply(op)
	}
	total := fb.ncommands() - base
	s.close()
	res.Evaluations++
	res.Traces++
	if k < 0 {
		return total
	}
	// ---- new incarnation against the same datapath
	fb.newEpoch()
	cfg := sc.Cfg
	cfg.FullStartup = true
	s2 := &sessSys{ex: ex, res: res, alphabet: c03Alphabet, poisonOnViolation: true}
	s2.in = newVInstWith(cfg, fb)
	s2.m = newRefAgent(len(s2.in.conns))
	defer s2.close()
	sig := func(class string) string { return fmt.Sprintf("c03:restart:%s", class) }
	if n := len(fb.pdrList()) + len(fb.farList()) + len(fb.qosList(AppQerLookup)) + len(fb.qosList(SessQerLookup)); n != 0 {
		res.finding(sig("tables-not-empty"), fmt.Sprintf("after restart %d entr(ies) of the previous incarnation remain (pdr %d far %d appQER %d sessQER %d)", n,
			len(fb.pdrList()), len(fb.farList()), len(fb.qosList(AppQerLookup)), len(fb.qosList(SessQerLookup))), ex.replayCase())
		return total
	}
	for _, c := range fb.logSince(0) {
		if c.Epoch == fb.epoch && c.Module == "sliceMeter" {
			res.finding(sig("slice-meter-touched"), "start-up without slice configuration wrote to the slice meter", ex.replayCase())
		}
	}
	// the new incarnation must work: association + establishment -> exactly its image
	s2.oracles = []func(*stepCtx){c03Oracle}
	s2.exec(&sessReq{sReq: sReq{Kind: kAssoc, Conn: 0}, Label: "assoc"})
	p, f, q := rsBasic("16.0.0.77", 0x770, "11.1.1.129")
	ctx := s2.exec(&sessReq{sReq: sReq{Kind: kEst, Conn: 0, CPSEID: 77, CreatePDR: p, CreateFAR: f, CreateQER: q}, Label: "est-basic"})
	if !ctx.accepted {
		res.finding(sig("est-rejected"), "establishment after restart not accepted", ex.replayCase())
	}
	return total
}
