//go:build verif

// C04 - UP4 tables are exactly the image of the live sessions' rules. Engine SEQ on the real handlers + real UP4
// plug-in + fake P4Runtime switch; after every step the switch contents are compared with refUP4 (appendix A.4 of
// DESIGN.md) up to renaming of agent-chosen identifiers; restart at every write index.
package pfcpiface

import (
	"encoding/json"
	"fmt"
	"sort"
	"strings"
	"testing"

	"github.com/wmnsk/go-pfcp/ie"
)

type up4Viol struct{ class, desc string }

type refAppFilter struct {
	IP    uint32
	Len   int
	Lo    uint16
	Hi    uint16
	Port  bool
	Proto int
}

// refPDRFilter returns the application filter a PDR denotes (nil = none beyond the UE address) and whether the PDR is
// inside the envelope in which the statement fixes a meaning.
func refPDRFilter(p *rPDR) (f *refAppFilter, strict bool) {
	if p.App != "" {
		return nil, false
	}
	if p.SDF == "" {
		return nil, true
	}
	rf, err := refParseFlow(p.SDF)
	if err != nil || !rf.Dst.Assigned || rf.Src.Assigned || rf.Dst.HasPort || rf.Proto == 0 || rf.Proto == 255 {
		return nil, false
	}
	if rf.Src.HasPort && rf.Src.Lo == 0 && rf.Src.Hi == 65535 {
		rf.Src.HasPort = false // every port: no constraint (P4Runtime wants a don't-care field left out)
	}
	if rf.Src.Len == 0 && !rf.Src.HasPort && rf.Proto < 0 {
		return nil, true // "from any to assigned": no constraint beyond the UE address
	}
	return &refAppFilter{IP: rf.Src.IP, Len: rf.Src.Len, Lo: rf.Src.Lo, Hi: rf.Src.Hi, Port: rf.Src.HasPort, Proto: rf.Proto}, true
}

func (f *refAppFilter) key() string {
	return fmt.Sprintf("%x/%d %v %d-%d proto %d", f.IP, f.Len, f.Port, f.Lo, f.Hi, f.Proto)
}

// up4ImageCheck compares the fake switch with the image of the model's live sessions.
func up4ImageCheck(s *sessSys) []up4Viol {
	var out []up4Viol
	bad := func(class, f string, a ...any) { out = append(out, up4Viol{class, fmt.Sprintf(f, a...)}) }
	fp := s.in.p4.fp
	pc := s.in.cfg.P4Conf
	if pc == nil {
		pc = &vP4Cfg{DefaultTC: 3}
	}
	n3 := uint64(vIP4(vN3Addr))
	get := func(table string) map[string]*fpEntry {
		m := map[string]*fpEntry{}
		for _, e := range fp.list(table) {
			m[e.key] = e
		}
		return m
	}
	sesU, sesD, terU, terD, apps, peers, ifs := get("sessions_uplink"), get("sessions_downlink"), get("terminations_uplink"), get("terminations_downlink"), get("applications"), get("tunnel_peers"), get("interfaces")
	used := map[*fpEntry]bool{}
	find := func(tbl map[string]*fpEntry, match map[string]uint64) *fpEntry {
		for _, e := range tbl {
			ok := len(e.Match) == len(match)
			for k, v := range match {
				if m, has := e.Match[k]; !has || m.Val != v || m.Kind != "exact" {
					ok = false
				}
			}
			if ok {
				return e
			}
		}
		return nil
	}
	// ---- interfaces: N3 address and UE pool, throughout
	wantIf := 0
	for _, e := range ifs {
		m := e.Match["ipv4_dst_prefix"]
		switch {
		case m.Kind == "lpm" && m.Val == n3 && m.Plen == 32:
			wantIf++
			if e.Action != "set_source_iface" || e.Params["src_iface"] != access || e.Params["direction"] != DirectionUplink || e.Params["slice_id"] != uint64(pc.SliceID) {
				bad("interfaces-n3", "N3 interface entry is %v", e)
			}
		case m.Kind == "lpm" && m.Val == uint64(s.in.p4.poolIP()) && int(m.Plen) == s.in.p4.poolLen():
			wantIf++
			if e.Action != "set_source_iface" || e.Params["src_iface"] != core || e.Params["direction"] != DirectionDownlink || e.Params["slice_id"] != uint64(pc.SliceID) {
				bad("interfaces-pool", "UE pool interface entry is %v", e)
			}
		default:
			bad("interfaces-extra", "unexpected interfaces entry %v", e)
		}
	}
	if wantIf != 2 && s.in.p4.up4.connected {
		bad("interfaces-missing", "interfaces table holds %d of the 2 expected entries (N3 address, UE pool)", wantIf)
	}
	// ---- per live PDR
	ctrSeen := map[uint64]string{}
	appUse := map[string]uint64{}  // filter key -> app id as referenced
	peerUse := map[uint64]uint64{} // gNB address -> peer id as referenced
	liveAM, liveSM := map[uint64]bool{}, map[uint64]bool{}
	allStrict := true
	for _, x := range s.m.live(-1) {
		var ue uint32
		for _, p := range x.PDRs {
			if p.Src == ie.SrcInterfaceCore && p.UE != 0 {
				ue = p.UE
			}
		}
		for i := range x.PDRs {
			p := &x.PDRs[i]
			flt, strict := refPDRFilter(p)
			if !strict || ue == 0 {
				allStrict = false
				continue
			}
			up := p.Src == ie.SrcInterfaceAccess
			far := x.far(p.FAR)
			if far == nil {
				allStrict = false
				continue
			}
			var q *sQER
			if len(p.QERs) > 0 {
				q = x.qer(p.QERs[0])
			}
			who := fmt.Sprintf("PDR %d of session #%d", p.ID, x.Idx)
			// sessions entry
			var se *fpEntry
			if up {
				se = find(sesU, map[string]uint64{"n3_address": uint64(p.TunIP), "teid": uint64(p.TEID)})
				if se == nil {
					bad("sessions-uplink-missing", "%s: no sessions_uplink entry under (%s, %#x)", who, vIPStr(p.TunIP), p.TEID)
				} else if se.Action != "set_session_uplink" {
					bad("sessions-uplink-action", "%s: %v", who, se)
				}
			} else {
				se = find(sesD, map[string]uint64{"ue_address": uint64(ue)})
				switch {
				case se == nil:
					bad("sessions-downlink-missing", "%s: no sessions_downlink entry under %s", who, vIPStr(ue))
				case far.Action&ActionBuffer != 0:
					if se.Action != "set_session_downlink_buff" {
						bad("sessions-downlink-not-buffering", "%s: FAR buffers but the entry is %v", who, se)
					}
				case far.Action&ActionForward != 0 && far.OHCIP != "" && far.OHCTEID != 0:
					if se.Action != "set_session_downlink" {
						bad("sessions-downlink-action", "%s: %v", who, se)
					} else {
						gnb := uint64(vIP4(far.OHCIP))
						id := se.Params["tunnel_peer_id"]
						if old, ok := peerUse[gnb]; ok && old != id {
							bad("tunnel-peer-two-ids", "gNB %s is referenced through tunnel peer ids %d and %d", far.OHCIP, old, id)
						}
						peerUse[gnb] = id
					}
				}
			}
			if se != nil {
				used[se] = true
				if c := se.Params["session_meter_idx"]; c != 0 {
					liveSM[c] = true
				}
			}
			// application
			appID := uint64(0)
			if flt != nil {
				var ae *fpEntry
				for _, e := range apps {
					m := e.Match
					okIP := (flt.Len == 0 && !has(m, "app_ip_addr")) || (flt.Len > 0 && has(m, "app_ip_addr") && m["app_ip_addr"].Kind == "lpm" && m["app_ip_addr"].Val == uint64(flt.IP) && int(m["app_ip_addr"].Plen) == flt.Len)
					okPort := (!flt.Port && !has(m, "app_l4_port")) || (flt.Port && has(m, "app_l4_port") && m["app_l4_port"].Kind == "range" && m["app_l4_port"].Val == uint64(flt.Lo) && m["app_l4_port"].Mask == uint64(flt.Hi))
					okProto := (flt.Proto < 0 && !has(m, "app_ip_proto")) || (flt.Proto >= 0 && has(m, "app_ip_proto") && m["app_ip_proto"].Kind == "ternary" && m["app_ip_proto"].Val == uint64(flt.Proto) && m["app_ip_proto"].Mask == 0xFF)
					if okIP && okPort && okProto && has(m, "slice_id") && m["slice_id"].Val == uint64(pc.SliceID) {
						ae = e
					}
				}
				if ae == nil {
					bad("applications-missing", "%s: no applications entry for filter %s", who, flt.key())
				} else {
					used[ae] = true
					appID = ae.Params["app_id"]
					if ae.Action != "set_app_id" || appID == 0 {
						bad("applications-action", "%s: %v", who, ae)
					}
					if old, ok := appUse[flt.key()]; ok && old != appID {
						bad("applications-two-ids", "filter %s has two application ids", flt.key())
					}
					appUse[flt.key()] = appID
				}
			}
			// terminations entry
			tbl, tname := terD, "terminations_downlink"
			if up {
				tbl, tname = terU, "terminations_uplink"
			}
			te := find(tbl, map[string]uint64{"ue_address": uint64(ue), "app_id": appID})
			if te == nil {
				bad(tname+"-missing", "%s: no %s entry under (%s, app %d)", who, tname, vIPStr(ue), appID)
				continue
			}
			used[te] = true
			gateClosed := false
			if q != nil {
				gateClosed = (up && q.GateUL != 0) || (!up && q.GateDL != 0)
			}
			wantDrop := far.Action&ActionDrop != 0 || gateClosed
			isDrop := te.Action == "uplink_term_drop" || te.Action == "downlink_term_drop"
			isFwd := te.Action == "uplink_term_fwd" || te.Action == "downlink_term_fwd"
			switch {
			case wantDrop && !isDrop:
				bad("terminations-not-dropping", "%s: FAR drops or the gate is closed but the entry is %v", who, te)
			case !wantDrop && !isFwd:
				bad("terminations-not-forwarding", "%s: neither FAR nor gate ask for a drop but the entry is %v", who, te)
			case !wantDrop:
				if !up && far.Action&ActionForward != 0 && te.Params["teid"] != uint64(far.OHCTEID) {
					bad("terminations-teid", "%s: forwards with TEID %#x, FAR says %#x", who, te.Params["teid"], far.OHCTEID)
				}
				if q != nil {
					if !up && te.Params["qfi"] != uint64(q.QFI) {
						bad("terminations-qfi", "%s: QFI %d, QER says %d", who, te.Params["qfi"], q.QFI)
					}
					tc, ok := pc.QFIToTC[q.QFI]
					if !ok {
						tc = pc.DefaultTC
					}
					if te.Params["tc"] != uint64(tc) {
						bad("terminations-tc", "%s: traffic class %d, configuration maps QFI %d to %d", who, te.Params["tc"], q.QFI, tc)
					}
				} else if !up && te.Params["qfi"] != DefaultQFI {
					bad("terminations-qfi", "%s: no QER, QFI %d instead of the default 9", who, te.Params["qfi"])
				}
				if c := te.Params["app_meter_idx"]; c != 0 {
					liveAM[c] = true
					if _, ok := fp.meterCells("app_meter")[int64(c)]; q == nil {
						bad("app-meter-without-qer", "%s references application meter cell %d but has no QER", who, c)
					} else if !ok {
						bad("app-meter-unconfigured", "%s references application meter cell %d which is not configured", who, c)
					}
				}
			}
			c := te.Params["ctr_idx"]
			if other, dup := ctrSeen[c]; dup {
				bad("counter-shared", "%s and %s share counter index %d", who, other, c)
			}
			ctrSeen[c] = who
		}
	}
	// ---- tunnel peers: one entry per distinct gNB in use, with the referenced id
	for gnb, id := range peerUse {
		pe := find(peers, map[string]uint64{"tunnel_peer_id": id})
		if pe == nil {
			bad("tunnel-peer-missing", "sessions reference tunnel peer id %d (gNB %s) but tunnel_peers has no such entry", id, vIPStr(uint32(gnb)))
			continue
		}
		used[pe] = true
		if pe.Action != "load_tunnel_param" || pe.Params["src_addr"] != n3 || pe.Params["dst_addr"] != gnb || pe.Params["sport"] != tunnelGTPUPort {
			bad("tunnel-peer-params", "tunnel peer %d is %v, expected (%s -> %s, 2152)", id, pe, vN3Addr, vIPStr(uint32(gnb)))
		}
	}
	// loose: a live FAR that carries tunnel parameters but does not forward at the moment (buffering or dropping with the
	// Outer Header Creation still present) may keep its tunnel peer - the statement's "uses" does not settle it
	for _, x := range s.m.live(-1) {
		for _, f := range x.FARs {
			if f.OHCIP != "" && f.OHCTEID != 0 && f.Action&ActionForward == 0 {
				for _, pe := range peers {
					if pe.Params["dst_addr"] == uint64(vIP4(f.OHCIP)) {
						used[pe] = true
					}
				}
			}
		}
	}
	if allStrict {
		for name, tbl := range map[string]map[string]*fpEntry{"sessions_uplink": sesU, "sessions_downlink": sesD, "terminations_uplink": terU, "terminations_downlink": terD, "applications": apps, "tunnel_peers": peers} {
			var extra []string
			for _, e := range tbl {
				if !used[e] {
					extra = append(extra, e.String())
				}
			}
			if len(extra) > 0 {
				sort.Strings(extra)
				bad(name+"-stale", "%s holds %d entr(ies) that no live rule denotes, e.g. %s", name, len(extra), extra[0])
			}
		}
		// configured meter cells only for QERs of live sessions: a configured cell must belong to a meter record of the
		// plug-in whose (F-SEID, QER) is a live QER of the model (a closed gate leaves a live QER's cell unreferenced)
		ownerAM, ownerSM := map[uint64]string{}, map[uint64]string{}
		for id, m := range s.in.p4.up4.meters {
			liveQ := false
			for _, x := range s.m.live(-1) {
				if x.UPSEID == id.fseid && x.qer(id.qerID) != nil {
					liveQ = true
				}
			}
			o := ownerAM
			if m.meterType == meterTypeSession {
				o = ownerSM
			}
			for _, c := range []uint32{m.uplinkCellID, m.downlinkCellID} {
				if c != 0 {
					if liveQ {
						o[uint64(c)] = "live"
					} else if o[uint64(c)] == "" {
						o[uint64(c)] = "dead"
					}
				}
			}
		}
		for c := range fp.meterCells("app_meter") {
			if !liveAM[uint64(c)] && ownerAM[uint64(c)] != "live" {
				bad("app-meter-stale", "application meter cell %d is configured but belongs to no QER of a live session", c)
			}
		}
		for c := range fp.meterCells("session_meter") {
			if !liveSM[uint64(c)] && ownerSM[uint64(c)] != "live" {
				bad("session-meter-stale", "session meter cell %d is configured but belongs to no QER of a live session", c)
			}
		}
	}
	sort.Slice(out, func(i, j int) bool { return out[i].class < out[j].class })
	return out
}

// up4UnjustifiedRefs returns the F-SEIDs that hold a tunnel-peer or application reference in the plug-in's bookkeeping
// which no live rule of the model justifies.
func up4UnjustifiedRefs(s *sessSys) map[uint64]bool {
	out := map[uint64]bool{}
	u := s.in.p4.up4
	sess := func(fseid uint64) *rSess {
		for _, x := range s.m.live(-1) {
			if x.UPSEID == fseid {
				return x
			}
		}
		return nil
	}
	for params, peer := range u.tunnelPeerIDs {
		for _, r := range peer.usedBy.ToSlice() {
			ref := r.(tnlPeerReference)
			x := sess(ref.fseid)
			if x == nil {
				continue // a dead session's reference shows up as a stale entry by itself
			}
			f := x.far(ref.farID)
			if f == nil || f.Action&ActionForward == 0 || vIP4(f.OHCIP) != params.tunnelIP4Dst {
				out[ref.fseid] = true
			}
		}
	}
	return out
}

func has(m map[string]fpMatch, k string) bool { _, ok := m[k]; return ok }

func (e *vP4Env) poolIP() uint32 { return ip2int(e.up4.ueIPPool.IP) }
func (e *vP4Env) poolLen() int   { n, _ := e.up4.ueIPPool.Mask.Size(); return n }

// ------------------------------------------------------------------------------------------------ alphabet

var c04Peers = []string{"11.1.1.129", "11.1.1.130"}
var c04SDFs = []string{"permit out udp from 10.1.0.0/16 80 to assigned", "permit out tcp from 10.2.3.4 1000-1003 to assigned"}

// up4RuleSet: uplink + downlink default PDRs, optionally an SDF pair above them, nq QERs.
func up4RuleSet(ue string, teid uint32, gnb string, sdf string, nq int, dlAction uint8) ([]sPDR, []sFAR, []sQER) {
	p, f, q := rsBasic(ue, teid, gnb)
	switch nq {
	case 0:
		p[0].QERs, p[1].QERs, q = nil, nil, nil
	case 2:
		p[0].QERs, p[1].QERs = []uint32{1, 4}, []uint32{1, 4}
		q = append(q, sQER{ID: 4, QFI: 0, MBRUL: 900000, MBRDL: 900000})
	}
	if dlAction != 0 {
		f[1] = sFAR{ID: 2, Action: dlAction}
	}
	if sdf != "" {
		sp := sdfPDRs(3, ue, teid, 50, sdf, 1, 2, p[0].QERs)
		p = append(p, sp...)
	}
	return p, f, q
}

func c04Alphabet(s *sessSys) []sessReq {
	var out []sessReq
	add := func(label string, r sessReq) {
		r.Label = label
		out = append(out, r)
	}
	for c := 0; c < len(s.in.conns); c++ {
		if s.m.Assoc[c] == "" {
			add("assoc", sessReq{sReq: sReq{Kind: kAssoc, Conn: c}})
			continue
		}
		n := len(s.m.Sess)
		ue := fmt.Sprintf("16.0.%d.%d", c, n+1)
		teid := uint32(0x100 + n)
		if len(s.m.live(-1)) < 3 && len(s.m.live(c)) < 2 {
			mkEst := func(label string, p []sPDR, f []sFAR, q []sQER) {
				add(label, sessReq{sReq: sReq{Kind: kEst, Conn: c, CPSEID: uint64(10 + n), CreatePDR: p, CreateFAR: f, CreateQER: q}})
			}
			p, f, q := up4RuleSet(ue, teid, c04Peers[0], "", 1, 0)
			mkEst("est-1qer-peer0", p, f, q)
			if c == 0 {
				p, f, q = up4RuleSet(ue, teid, c04Peers[1], "", 2, 0)
				mkEst("est-2qer-peer1", p, f, q)
				p, f, q = up4RuleSet(ue, teid, c04Peers[0], c04SDFs[0], 1, 0)
				mkEst("est-sdf0-peer0", p, f, q)
				p, f, q = up4RuleSet(ue, teid, c04Peers[1], c04SDFs[0], 0, 0)
				mkEst("est-sdf0-noqer-peer1", p, f, q)
				// two QFIs in one session: default rules QFI 9, application rules QFI 5 (mapped / unmapped differ per configuration)
				p, f, q = up4RuleSet(ue, teid, c04Peers[0], c04SDFs[0], 1, 0)
				p[2].QERs, p[3].QERs = []uint32{2}, []uint32{2}
				q = append(q, sQER{ID: 2, QFI: 5, MBRUL: 700, MBRDL: 800})
				mkEst("est-sdf0-two-qfi-peer0", p, f, q)
				// application rules listed ahead of the default rules
				p, f, q = up4RuleSet(ue, teid, c04Peers[1], c04SDFs[0], 1, 0)
				p = []sPDR{p[2], p[3], p[0], p[1]}
				mkEst("est-sdf0-first-peer1", p, f, q)
				if vEnv.Thorough || s.in.cfg.P4Conf == nil || s.in.cfg.P4Conf.SliceID == 0 {
					// a dedicated bearer: the application rules' uplink PDR arrives through a second N3 tunnel (its own TEID)
					p, f, q = up4RuleSet(ue, teid, c04Peers[0], c04SDFs[0], 1, 0)
					ft := *p[2].FTEID
					ft.TEID = teid + 0x50
					p[2].FTEID = &ft
					mkEst("est-sdf0-second-uplink-tunnel", p, f, q)
				}
				if vEnv.Thorough {
					p, f, q = up4RuleSet(ue, teid, c04Peers[0], c04SDFs[1], 2, 0)
					mkEst("est-sdf1-2qer-peer0", p, f, q)
				}
				p, f, q = up4RuleSet(ue, teid, c04Peers[0], "", 1, ActionBuffer|ActionNotify)
				mkEst("est-buffer", p, f, q)
				p, f, q = up4RuleSet(ue, teid, c04Peers[0], "", 1, 0)
				q[0].GateDL, f[0] = 1, sFAR{ID: 1, Action: ActionDrop}
				mkEst("est-gate-closed-ul-drop", p, f, q)
				// both gates closed while both FARs forward: the entries drop, with exactly the parameters of the drop actions
				p, f, q = up4RuleSet(ue, teid, c04Peers[0], "", 1, 0)
				q[0].GateUL, q[0].GateDL = 1, 1
				mkEst("est-gates-closed-forwarding", p, f, q)
			}
		}
		for _, x := range s.m.live(c) {
			add("del", sessReq{sReq: sReq{Kind: kDel, Conn: c}, Sess: x.Idx})
			if c != 0 {
				continue
			}
			if f := x.far(2); f != nil {
				for pi, peer := range c04Peers {
					if f.OHCIP == peer && f.OHCTEID == 0x7000+uint32(pi) {
						continue
					}
					add(fmt.Sprintf("mod-ufar-fwd-peer%d", pi), sessReq{sReq: sReq{Kind: kMod, Conn: c, UpdateFAR: []sFAR{{ID: 2, Action: ActionForward, HasFwd: true, HasDst: true, Dst: ie.DstInterfaceAccess, OHCIP: peer, OHCTEID: 0x7000 + uint32(pi)}}}, Sess: x.Idx})
					if pi == 1 {
						// the same update without Destination Interface in the Update Forwarding Parameters (the IE is conditional:
						// "present if changed")
						add("mod-ufar-fwd-peer1-no-dst-interface", sessReq{sReq: sReq{Kind: kMod, Conn: c, UpdateFAR: []sFAR{{ID: 2, Action: ActionForward, HasFwd: true, OHCIP: peer, OHCTEID: 0x7001}}}, Sess: x.Idx})
					}
				}
				if f1 := x.far(1); f1 != nil && f1.Action&ActionForward != 0 && f1.OHCIP == "" && (vEnv.Thorough || s.in.cfg.P4Conf == nil || s.in.cfg.P4Conf.SliceID == 0) {
					// two Update FARs in one request: the downlink FAR moves to peer B, the uplink FAR is repeated with its
					// Destination Interface only - in both orders (each FAR is programmed with its own parameters)
					u2 := sFAR{ID: 2, Action: ActionForward, HasFwd: true, HasDst: true, Dst: ie.DstInterfaceAccess, OHCIP: c04Peers[1], OHCTEID: 0x7005}
					u1 := sFAR{ID: 1, Action: ActionForward, HasFwd: true, HasDst: true, Dst: ie.DstInterfaceCore}
					if !(f.OHCIP == u2.OHCIP && f.OHCTEID == u2.OHCTEID) {
						add("mod-ufar-tunnel-then-plain", sessReq{sReq: sReq{Kind: kMod, Conn: c, UpdateFAR: []sFAR{u2, u1}}, Sess: x.Idx})
						add("mod-ufar-plain-then-tunnel", sessReq{sReq: sReq{Kind: kMod, Conn: c, UpdateFAR: []sFAR{u1, u2}}, Sess: x.Idx})
					}
				}
				if f.Action&ActionBuffer == 0 {
					if q1 := x.qer(1); q1 != nil && q1.GateDL == 0 && q1.QFI != 5 {
						// a modification that carries nothing but an Update QER: the downlink gate closes / the QFI changes
						nq := *q1
						nq.GateDL = 1
						add("mod-uqer-close-dl-gate", sessReq{sReq: sReq{Kind: kMod, Conn: c, UpdateQER: []sQER{nq}}, Sess: x.Idx})
						nq = *q1
						nq.QFI = 5
						add("mod-uqer-qfi5", sessReq{sReq: sReq{Kind: kMod, Conn: c, UpdateQER: []sQER{nq}}, Sess: x.Idx})
					}
					add("mod-ufar-buffer", sessReq{sReq: sReq{Kind: kMod, Conn: c, UpdateFAR: []sFAR{{ID: 2, Action: ActionBuffer | ActionNotify, HasFwd: true}}}, Sess: x.Idx})
					if f2 := x.far(2); f2 != nil && f2.OHCIP != "" && f2.Action == ActionForward {
						// idle transition that keeps the tunnel parameters in the Update Forwarding Parameters
						add("mod-ufar-buffer-keep-tunnel", sessReq{sReq: sReq{Kind: kMod, Conn: c, UpdateFAR: []sFAR{{ID: 2, Action: ActionBuffer | ActionNotify, HasFwd: true, HasDst: true, Dst: ie.DstInterfaceAccess, OHCIP: f2.OHCIP, OHCTEID: f2.OHCTEID}}}, Sess: x.Idx})
					}
				}
			}
		}
		if c == 0 {
			add("del-unknown", sessReq{sReq: sReq{Kind: kDel, Conn: c}, Sess: -1})
		}
	}
	return out
}

func c04Oracle(c *stepCtx) {
	s := c.sys
	if c.pframe != "" {
		s.violation("c04:panic:"+c.pframe, "handler panicked on "+c.req.Label+": "+c.pmsg)
		return
	}
	if c.accepted && (c.req.Kind == kEst || c.req.Kind == kMod || c.req.Kind == kDel) {
		s.res.outcome("accepted-" + c.req.Kind)
	} else if c.req.Kind == kEst || c.req.Kind == kMod || c.req.Kind == kDel {
		s.res.outcome("rejected-" + c.req.Kind)
	}
	if s.confirming {
		return
	}
	vs := up4ImageCheck(s)
	if len(vs) == 0 {
		// Reference counts that no live rule justifies are latent: the shared entry outlives its last real user. Play that
		// continuation (delete every session except the holders of the unjustified references) and report what the switch
		// then shows under the label of the step that created the leak.
		holders := up4UnjustifiedRefs(s)
		if len(holders) == 0 {
			return
		}
		s.confirming = true
		for _, x := range s.m.live(-1) {
			if !holders[x.UPSEID] {
				s.exec(&sessReq{sReq: sReq{Kind: kDel, Conn: x.Conn}, Sess: x.Idx, Label: "confirm-del"})
			}
		}
		s.confirming = false
		vs = up4ImageCheck(s)
		if len(vs) == 0 {
			return
		}
		vs[0].desc += "; shown after deleting the other sessions that shared the object"
	}
	v := vs[0]
	if !c.accepted && (c.req.Kind == kEst || c.req.Kind == kMod || c.req.Kind == kDel) && s.m.Assoc[c.req.Conn] != "" {
		// the statement speaks of the state after accepted requests: confirm with a further accepted establishment
		s.confirming = true
		p, f, q := up4RuleSet("16.0.200.1", 0xC800, "11.1.1.200", "", 1, 0)
		pc := s.exec(&sessReq{sReq: sReq{Kind: kEst, Conn: c.req.Conn, CPSEID: 0xC8, CreatePDR: p, CreateFAR: f, CreateQER: q}, Label: "confirm-est"})
		s.confirming = false
		still := false
		for _, w := range up4ImageCheck(s) {
			if w.class == v.class {
				still = true
			}
		}
		if !pc.accepted || !still {
			return
		}
		v.desc += "; still so after a further accepted establishment"
		v.class = "rejected-request-left-traces"
	}
	s.violation("c04:"+v.class+":after="+c.req.Label, v.desc+" (after "+c.req.Label+")")
}

type c04Scenario struct {
	Name  string `json:"name"`
	Cfg   vCfg   `json:"cfg"`
	Crash *struct {
		K int `json:"k"`
	} `json:"crash,omitempty"`
}

func c04Scenarios() []c04Scenario {
	var out []c04Scenario
	maps := []map[uint8]uint8{nil, {9: 1}, {0: 2, 9: 1}}
	for _, slice := range []uint8{0, 15} {
		for _, tc := range []uint8{0, 3} {
			for mi, m := range maps {
				out = append(out, c04Scenario{Name: fmt.Sprintf("up4-slice%d-tc%d-map%d", slice, tc, mi),
					Cfg: vCfg{P4: true, NConns: 2, P4Conf: &vP4Cfg{SliceID: slice, DefaultTC: tc, QFIToTC: m}}})
			}
		}
	}
	// a QFI mapped explicitly to traffic class 0 (a legal class) while the default class is another one
	out = append(out,
		c04Scenario{Name: "up4-slice0-tc3-map-to-zero", Cfg: vCfg{P4: true, NConns: 2, P4Conf: &vP4Cfg{SliceID: 0, DefaultTC: 3, QFIToTC: map[uint8]uint8{9: 0, 5: 0}}}},
		c04Scenario{Name: "up4-slice15-tc2-map-to-zero", Cfg: vCfg{P4: true, NConns: 2, P4Conf: &vP4Cfg{SliceID: 15, DefaultTC: 2, QFIToTC: map[uint8]uint8{9: 0, 0: 1}}}})
	return out
}

func TestVerifC04(t *testing.T) {
	vQuietLoggers()
	res := vNewResult()
	defer res.write(t)
	res.Rule = "per configuration (slice {0,15} x default TC {0,3} x QFI->TC map {none, 9->1, 0->2+9->1} + two configurations mapping a QFI to class 0 under a non-zero default): BFS over association / establishment (1 or 2 QERs, SDF application filter with and without " +
		"QER, buffering FAR, closed gate + dropping FAR; sessions sharing or not sharing gNB and filter) / Update FAR (forward to peer A or B, buffer) / deletion over 2 associations x <=3 sessions; " +
		"after every step the fake switch is compared with refUP4 (sessions, terminations, applications, tunnel_peers, interfaces, meters, counters); restart at every write index. " +
		"distinct_nontrivial = distinct canonical states + restart cases"
	res.Assumptions = []string{"fake switch implements P4Runtime write semantics (INSERT existing = ALREADY_EXISTS, MODIFY/DELETE missing = NOT_FOUND, per-update status in details)",
		"refUP4 = appendix A.4 of DESIGN.md; TC is not asserted for PDRs without QER; meter shape is loose, liveness and rate asserted"}
	depth := 5
	if vEnv.Thorough {
		depth = 6
	}
	scs := c04Scenarios()
	mk := func(ex *seqExplorer, sc c04Scenario) func() seqSys {
		return func() seqSys {
			s := newSessSys(ex, res, sc.Cfg, c04Alphabet, c04Oracle)
			s.poisonOnViolation = true
			return s
		}
	}
	if rc := vReplayCase(); rc != nil {
		var c seqCase
		json.Unmarshal(rc, &c)
		var sc c04Scenario
		json.Unmarshal(c.Scenario, &sc)
		ex := &seqExplorer{res: res, scenario: sc, depth: depth}
		if sc.Crash != nil {
			c04CrashCase(res, ex, sc, c.History, sc.Crash.K)
			return
		}
		ex.mk = mk(ex, sc)
		ex.replay(c)
		return
	}
	if vMine(0) {
		// the fast assembly used for bulk exploration must equal what the real SetUpfInfo / tryConnect produce
		if diff := vUP4StartupConformance(); len(diff) > 0 {
			panic("VERIF-INFRA: fast UP4 assembly differs from the real start-up (harness/fake_p4.go SetUpfInfoNoLoop is out of date): " + strings.Join(diff, "; "))
		}
		res.Extra["startup_conformance"] = "fast assembly == real SetUpfInfo+keepTryingToConnect over gRPC (UP4 fields, switch contents)"
	}
	for i, sc := range scs {
		sc := sc
		if !vMine(i) {
			continue
		}
		d := depth
		if i != 5 && i != 6 && !vEnv.Thorough {
			d = depth - 1 // the full depth on two configurations, one less on the others
		}
		ex := &seqExplorer{res: res, scenario: sc, depth: d}
		ex.mk = mk(ex, sc)
		ex.explore(nil)
		res.Distinct += ex.stats.States
	}
	res.Extra["bfs_depth"] = depth
	res.sample(map[string]any{"scenario": scs[5].Name, "history": []string{"assoc", "est-sdf0-peer0", "mod-ufar-buffer", "mod-ufar-fwd-peer1", "del"}})
	c04Crash(res, scs[4])
}

// c04Crash: agent killed after the k-th Write of every history up to depth 3 (small alphabet), new incarnation through the
// real SetUpfInfo + tryConnect over gRPC against the same switch: no table entry of the old incarnation may survive.
func c04Crash(res *vResult, sc c04Scenario) {
	small := func(s *sessSys) []sessReq {
		var keep []sessReq
		for _, r := range c04Alphabet(s) {
			switch r.Label {
			case "assoc", "est-1qer-peer0", "est-sdf0-peer0", "est-2qer-peer1", "mod-ufar-fwd-peer1", "del":
				if r.Conn == 0 {
					keep = append(keep, r)
				}
			}
		}
		return keep
	}
	var hists [][]seqOp
	sub := &vResult{Extra: map[string]any{}, seenSig: map[string]bool{}, distinct: map[uint64]struct{}{}, Outcomes: map[string]int{}, deadline: res.deadline}
	ex := &seqExplorer{res: sub, scenario: sc, depth: 3}
	ex.mk = func() seqSys {
		s := newSessSys(ex, sub, sc.Cfg, small)
		s.poisonOnViolation = true
		return s
	}
	ex.onState = func(sys seqSys, h []seqOp) {
		if len(h) >= 2 {
			hists = append(hists, append([]seqOp{}, h...))
		}
	}
	ex.explore(nil)
	item := 0
	for _, h := range hists {
		ex2 := &seqExplorer{res: res, scenario: sc}
		total := -1
		for k := 0; total < 0 || k <= total; k++ {
			item++
			if total < 0 {
				total = c04CrashCase(res, ex2, sc, h, -1)
			}
			if !vMine(item) {
				continue
			}
			if res.expired() {
				return
			}
			c04CrashCase(res, ex2, sc, h, k)
			res.Distinct++
		}
	}
	res.Extra["crash_histories"] = len(hists)
}

func c04CrashCase(res *vResult, ex *seqExplorer, sc c04Scenario, h []seqOp, k int) int {
	cs := sc
	cs.Crash = &struct {
		K int `json:"k"`
	}{k}
	ex.scenario = cs
	ex.cur = append(ex.cur[:0], h...)
	res.journal(ex.replayCase())
	s := newSessSys(ex, res, sc.Cfg, c04Alphabet)
	fp := s.in.p4.fp
	base := s.in.p4.nwrites()
	if k >= 0 {
		fp.mu.Lock()
		fp.deadAfter = base + k
		fp.mu.Unlock()
	}
	for _, op := range h {
		s.apply(op)
	}
	total := s.in.p4.nwrites() - base
	s.close()
	res.Evaluations++
	res.Traces++
	if k < 0 {
		return total
	}
	fp.newEpoch()
	cfg := sc.Cfg
	cfg.FullStartup = true
	s2 := &sessSys{ex: ex, res: res, alphabet: c04Alphabet, poisonOnViolation: true}
	s2.in = newVInstWith(cfg, fp)
	s2.m = newRefAgent(len(s2.in.conns))
	defer s2.close()
	old := 0
	for _, t := range fpSessionTables {
		for _, e := range fp.list(t) {
			if e.Epoch != fp.epoch {
				old++
			}
		}
	}
	if old != 0 {
		res.finding("c04:restart:entries-survive", fmt.Sprintf("%d table entr(ies) of the killed incarnation are still installed after start-up", old), ex.replayCase())
		return total
	}
	s2.oracles = []func(*stepCtx){c04Oracle}
	// meters are not claimed by the statement after a crash: forget stale cells before comparing
	fp.mu.Lock()
	for _, m := range []string{"app_meter", "session_meter"} {
		for i, c := range fp.meters[m] {
			if c.Epoch != fp.epoch {
				delete(fp.meters[m], i)
			}
		}
	}
	fp.mu.Unlock()
	s2.exec(&sessReq{sReq: sReq{Kind: kAssoc, Conn: 0}, Label: "assoc"})
	p, f, q := up4RuleSet("16.0.0.77", 0x770, c04Peers[0], c04SDFs[0], 1, 0)
	ctx := s2.exec(&sessReq{sReq: sReq{Kind: kEst, Conn: 0, CPSEID: 77, CreatePDR: p, CreateFAR: f, CreateQER: q}, Label: "est-after-restart"})
	if !ctx.accepted {
		res.finding("c04:restart:est-rejected", "establishment after restart not accepted", ex.replayCase())
	}
	return total
}

// c16Oracle reports every write the fake switch's validator found invalid for the served P4Info.
func c16Oracle(c *stepCtx) {
	if c.sys.in.p4 == nil {
		return
	}
	for _, v := range c.sys.in.p4.fp.takeInvalid() {
		cls := v
		for i := 0; i < len(v); i++ {
			if v[i] == '|' {
				cls = v[:i]
				break
			}
		}
		c.sys.res.finding("c16:invalid-write:"+cls, "a P4Runtime update does not conform to the P4Info: "+v+" (after "+c.req.Label+")", c.sys.ex.replayCase())
	}
}
