//go:build verif

// Reference model of the agent as a control plane sees it (refAgent) and the PFCP-level system used by the SEQ
// explorations (sessSys): it executes semantic requests on a real instance, decodes what the agent wrote to the
// peer socket, advances the model on *observed* acceptance and calls the property-specific oracles.
package pfcpiface

import (
	"encoding/json"
	"fmt"
	"sort"
	"strings"

	"github.com/wmnsk/go-pfcp/ie"
	"github.com/wmnsk/go-pfcp/message"
)

type rPDR struct {
	sPDR
	TEID               uint32 // resolved tunnel endpoint (given or chosen by the UP), 0 = none
	TunIP              uint32
	UE                 uint32 // resolved UE address (given or allocated), 0 = none
	ChoseTEID, AllocUE bool
}

type rSess struct {
	Idx    int
	Conn   int
	CPSEID uint64
	UPSEID uint64
	PDRs   []rPDR
	FARs   []sFAR
	QERs   []sQER
	Dead   bool
	// GivenUE: the UP allocated a UE address for this session at some point of its life (an Update PDR that repeats the
	// address explicitly does not take it away)
	GivenUE bool
	// GivenAddr: the UE address the establishment response reported (Created PDR), 0 if none: the session holds it until it
	// ends, whichever of its rules are removed or replaced meanwhile
	GivenAddr uint32
}

func (s *rSess) far(id uint32) *sFAR {
	for i := range s.FARs {
		if s.FARs[i].ID == id {
			return &s.FARs[i]
		}
	}
	return nil
}
func (s *rSess) qer(id uint32) *sQER {
	for i := range s.QERs {
		if s.QERs[i].ID == id {
			return &s.QERs[i]
		}
	}
	return nil
}
func (s *rSess) pdr(id uint16) *rPDR {
	for i := range s.PDRs {
		if s.PDRs[i].ID == id {
			return &s.PDRs[i]
		}
	}
	return nil
}

type refAgent struct {
	Assoc []string // per connection: CP node id once associated, "" before
	Gone  []bool   // association ended (release / shutdown)
	Sess  []*rSess // every session ever accepted, by creation index
	PFD   []map[string][]string
}

func newRefAgent(n int) *refAgent {
	m := &refAgent{Assoc: make([]string, n), Gone: make([]bool, n), PFD: make([]map[string][]string, n)}
	return m
}

func (m *refAgent) live(conn int) []*rSess {
	var out []*rSess
	for _, s := range m.Sess {
		if !s.Dead && (conn < 0 || s.Conn == conn) {
			out = append(out, s)
		}
	}
	return out
}

func (m *refAgent) byUPSEID(conn int, seid uint64) *rSess {
	for _, s := range m.Sess {
		if !s.Dead && s.Conn == conn && s.UPSEID == seid {
			return s
		}
	}
	return nil
}

// resolvePDR fills in the identifiers chosen by the UP from the Created PDR elements of the response.
func resolvePDR(p sPDR, created []vCreated) rPDR {
	r := rPDR{sPDR: p}
	if p.FTEID != nil {
		if p.FTEID.Choose {
			r.ChoseTEID = true
			for _, c := range created {
				if c.PDRID == p.ID && c.HasT {
					r.TEID, r.TunIP = c.TEID, vIP4(c.TIP)
				}
			}
		} else if p.FTEID.TEID != 0 {
			r.TEID, r.TunIP = p.FTEID.TEID, vIP4(p.FTEID.IP)
		}
	}
	if p.UEAlloc {
		r.AllocUE = true
		for _, c := range created {
			if c.PDRID == p.ID && c.HasU {
				r.UE = vIP4(c.UEIP)
			}
		}
	} else if p.UEIP != "" {
		r.UE = vIP4(p.UEIP)
	}
	return r
}

// applyMod applies an accepted modification to the model session: creations append, updates replace the rule with
// that ID (requests of the alphabets always carry complete rules, so "replace" and TS 29.244 "merge" coincide),
// updates of unknown IDs change nothing, removals delete.
func (s *rSess) applyMod(r *sReq) {
	// the UP-side UE address is sticky: a rule of a modification that asks for it again gets the address the session holds
	// (a modification response carries no Created PDR)
	sticky := uint32(0)
	for _, p := range s.PDRs {
		if p.AllocUE && p.UE != 0 {
			sticky = p.UE
			break
		}
	}
	for _, p := range r.CreatePDR {
		n := resolvePDR(p, nil)
		if n.AllocUE && n.UE == 0 {
			n.UE = sticky
		}
		s.PDRs = append(s.PDRs, n)
	}
	s.FARs = append(s.FARs, r.CreateFAR...)
	s.QERs = append(s.QERs, r.CreateQER...)
	for _, p := range r.UpdatePDR {
		if old := s.pdr(p.ID); old != nil {
			n := resolvePDR(p, nil)
			if n.AllocUE && n.UE == 0 {
				n.UE = sticky
			}
			*old = n
		}
	}
	for _, f := range r.UpdateFAR {
		if old := s.far(f.ID); old != nil {
			if f.HasFwd && !f.HasDst && old.HasDst {
				// Destination Interface is conditional in Update Forwarding Parameters ("present if changed")
				f.HasDst, f.Dst = true, old.Dst
			}
			*old = f
		}
	}
	for _, q := range r.UpdateQER {
		if old := s.qer(q.ID); old != nil {
			*old = q
		}
	}
	for _, id := range r.RemovePDR {
		for i := range s.PDRs {
			if s.PDRs[i].ID == id {
				s.PDRs = append(s.PDRs[:i:i], s.PDRs[i+1:]...)
				break
			}
		}
	}
	for _, id := range r.RemoveFAR {
		for i := range s.FARs {
			if s.FARs[i].ID == id {
				s.FARs = append(s.FARs[:i:i], s.FARs[i+1:]...)
				break
			}
		}
	}
	for _, id := range r.RemoveQER {
		for i := range s.QERs {
			if s.QERs[i].ID == id {
				s.QERs = append(s.QERs[:i:i], s.QERs[i+1:]...)
				break
			}
		}
	}
	if r.HasCP {
		s.CPSEID = r.CPSEID
	}
}

// ------------------------------------------------------------------------------------------------ sessSys

// sessReq is a request of an alphabet: like sReq but it names its session symbolically.
type sessReq struct {
	sReq
	Sess    int    `json:"sess"`              // index into the model's session list (mod/del/reportresp); -1 = unknown SEID
	Label   string `json:"label,omitempty"`   // alphabet entry name (for samples / signatures)
	RawType uint8  `json:"rawtype,omitempty"` // kind "raw": message type of a response-type / unsupported message
	FailAt  int    `json:"failat,omitempty"`  // UP4: the (FailAt-1)-th Write issued by this request fails (0 = none)
	// SameSeq: the request carries the sequence number of the previous request of its connection (which was answered: the
	// number is free again, e.g. after the 24-bit counter of a busy peer wrapped). It is a new request, not a retransmission.
	SameSeq bool `json:"sameseq,omitempty"`
}

type stepCtx struct {
	sys      *sessSys
	req      *sessReq
	msg      *vMsg
	out      [][]byte
	resps    []*vResp
	resp     *vResp // set when exactly one decodable message was written
	accepted bool
	sess     *rSess // session named by the request (before the step), nil if unknown / establishment
	newSess  *rSess // session created by this step
	cmd0     int    // datapath command count before the step
	pframe   string
	pmsg     string
}

type sessSys struct {
	ex       *seqExplorer
	res      *vResult
	prop     string
	in       *vInst
	m        *refAgent
	alphabet func(s *sessSys) []sessReq
	oracles  []func(c *stepCtx)
	keyExtra func(s *sessSys) string
	steps    int
	poisoned bool // a panic happened in this instance: the real process would be dead
	// poisonOnViolation makes a state in which an oracle failed terminal (its successors would only repeat the finding)
	poisonOnViolation bool
	confirming        bool                         // an oracle is executing a confirmation request (oracles do not recurse)
	preStep           func(s *sessSys, r *sessReq) // called before a request is injected
	emEarly           int                          // C14: end markers found queued while datapath commands were still arriving
	// afterRefusal: a session request that was refused leaves the model where it was, so the state key would merge the
	// state with its parent and nothing would ever be tried after a refusal - although what a (wrong) implementation
	// keeps from a refused request is exactly what such a state differs in. With afterRefusal the label of the last
	// refused request is part of the key until the next accepted request (two refusals in a row are not distinguished
	// further).
	afterRefusal bool
	lastRefused  string
}

func (s *sessSys) close() { s.in.close() }

func (s *sessSys) ops() []seqOp {
	if s.poisoned {
		return nil
	}
	var out []seqOp
	for _, r := range s.alphabet(s) {
		out = append(out, mkOp("req", r))
	}
	return out
}

// violation records a finding with the current history as replay payload.
func (s *sessSys) violation(sig, desc string) {
	s.res.finding(sig, desc, s.ex.replayCase())
	if s.poisonOnViolation {
		s.poisoned = true
	}
}

const vUnknownSEID = 0xDEAD00000000BEEF

func (s *sessSys) apply(op seqOp) {
	var r sessReq
	if err := json.Unmarshal(op.Arg, &r); err != nil {
		panic(err)
	}
	s.exec(&r)
}

func (s *sessSys) exec(r *sessReq) *stepCtx {
	s.steps++
	if s.m.Gone[r.Conn] {
		// a datagram from an address whose association ended reaches the node socket, which creates a new PFCPConn
		// (node.go handleNewPeers); the harness does the same
		s.in.addConn(r.Conn)
		s.m.Gone[r.Conn], s.m.Assoc[r.Conn], s.m.PFD[r.Conn] = false, "", nil
	}
	c := s.in.conns[r.Conn]
	ctx := &stepCtx{sys: s, req: r}
	req := r.sReq
	if req.Seq == 0 && r.SameSeq && c.seq > 1 {
		req.Seq = c.seq - 1
	} else if req.Seq == 0 {
		req.Seq = c.seq
		c.seq++
	}
	switch r.Kind {
	case kMod, kDel, kSRR:
		if r.Sess >= 0 && r.Sess < len(s.m.Sess) {
			ctx.sess = s.m.Sess[r.Sess]
			req.SEID = ctx.sess.UPSEID
			if ctx.sess.Dead {
				ctx.sess = nil // a session that ended is unknown to the agent
			}
		} else {
			req.SEID = vUnknownSEID
		}
	}
	if r.Kind == "shutdown" {
		// the common tail of read timeout, heartbeat failure and stop: the real Shutdown of the association
		ctx.msg = &vMsg{}
		if s.in.fb != nil {
			ctx.cmd0 = s.in.fb.ncommands()
		}
		ctx.pframe, ctx.pmsg = vCatch(func() { c.pc.Shutdown() })
		if ctx.pframe != "" {
			s.poisoned = true
		}
		for _, x := range s.m.live(r.Conn) {
			x.Dead = true
		}
		s.m.Gone[r.Conn] = true
		for _, o := range s.oracles {
			o(ctx)
		}
		return ctx
	}
	if r.Kind == "raw" {
		ctx.msg = &vMsg{Type: r.RawType, Seq: req.Seq}
		switch r.RawType {
		case message.MsgTypeHeartbeatResponse:
			ctx.msg.IEs = []*vIE{vFromIE(ie.NewRecoveryTimeStamp(s.in.conns[r.Conn].pc.ts.local))}
		case message.MsgTypeAssociationSetupResponse:
			ctx.msg.IEs = []*vIE{vNodeIDIE(c.node), vFromIE(ie.NewCause(ie.CauseRequestAccepted)), vFromIE(ie.NewRecoveryTimeStamp(s.in.conns[r.Conn].pc.ts.local))}
		case message.MsgTypeSessionReportRequest, message.MsgTypeSessionSetDeletionRequest:
			ctx.msg.S = true
		}
	} else {
		ctx.msg = req.build(c)
	}
	ctx.req.sReq.Seq = req.Seq
	if s.in.fb != nil {
		ctx.cmd0 = s.in.fb.ncommands()
	} else if s.in.p4 != nil {
		ctx.cmd0 = s.in.p4.nwrites()
	}
	if s.preStep != nil {
		s.preStep(s, r)
	}
	if r.FailAt > 0 && s.in.p4 != nil {
		fp := s.in.p4.fp
		fp.mu.Lock()
		fp.faults[fp.nwrite+r.FailAt-1] = fpFault{Shape: "p4err"}
		fp.mu.Unlock()
	}
	ctx.out, ctx.pframe, ctx.pmsg = s.in.inject(r.Conn, ctx.msg.marshal())
	if ctx.pframe != "" {
		s.poisoned = true
	}
	for _, b := range ctx.out {
		if d, err := vDecode(b); err == nil {
			ctx.resps = append(ctx.resps, d)
		} else {
			ctx.resps = append(ctx.resps, nil)
		}
	}
	if len(ctx.resps) == 1 && ctx.resps[0] != nil {
		ctx.resp = ctx.resps[0]
		ctx.accepted = ctx.resp.HasCause && ctx.resp.Cause == ie.CauseRequestAccepted
	}
	// ---- advance the model on observed acceptance
	if ctx.resp != nil && ctx.accepted && ctx.resp.Type == vRespTypeFor(ctx.msg.Type) {
		switch r.Kind {
		case kAssoc:
			s.m.Assoc[r.Conn] = c.node
			if r.NodeID != "" {
				s.m.Assoc[r.Conn] = r.NodeID
			}
		case kPFD:
			t := map[string][]string{}
			for _, p := range r.PFDs {
				t[p.App] = append([]string{}, p.Flows...)
			}
			s.m.PFD[r.Conn] = t
		case kEst:
			ns := &rSess{Idx: len(s.m.Sess), Conn: r.Conn, CPSEID: r.CPSEID, UPSEID: ctx.resp.UPSEID}
			for _, p := range r.CreatePDR {
				ns.PDRs = append(ns.PDRs, resolvePDR(p, ctx.resp.Created))
			}
			ns.FARs = append(ns.FARs, r.CreateFAR...)
			ns.QERs = append(ns.QERs, r.CreateQER...)
			for _, cr := range ctx.resp.Created {
				if cr.HasU && cr.UEIP != "" {
					ns.GivenAddr = vIP4(cr.UEIP)
				}
			}
			s.m.Sess = append(s.m.Sess, ns)
			ctx.newSess = ns
		case kMod:
			if ctx.sess != nil {
				ctx.sess.applyMod(&r.sReq)
			}
		case kDel:
			if ctx.sess != nil {
				ctx.sess.Dead = true
			}
		case kRel:
			for _, x := range s.m.live(r.Conn) {
				x.Dead = true
			}
			s.m.Gone[r.Conn] = true
		}
	}
	if r.Kind == kSRR && r.Cause == ie.CauseSessionContextNotFound && !r.NoCause && ctx.sess != nil && ctx.pframe == "" {
		ctx.sess.Dead = true // the CP lost the context: the agent must drop the session
	}
	if s.afterRefusal && !s.confirming && (r.Kind == kEst || r.Kind == kMod || r.Kind == kDel) {
		if ctx.accepted {
			s.lastRefused = ""
		} else if s.lastRefused == "" {
			s.lastRefused = r.Label
		}
	}
	for _, o := range s.oracles {
		o(ctx)
	}
	return ctx
}

// ------------------------------------------------------------------------------------------------ canonical key

type vRenamer struct {
	seid map[uint64]string
	teid map[uint32]string
	ue   map[uint32]string
}

func (s *sessSys) renamer() *vRenamer {
	rn := &vRenamer{seid: map[uint64]string{}, teid: map[uint32]string{}, ue: map[uint32]string{}}
	for _, x := range s.m.live(-1) {
		rn.seid[x.UPSEID] = fmt.Sprintf("S%d", len(rn.seid))
		for _, p := range x.PDRs {
			if p.ChoseTEID && p.TEID != 0 {
				if _, ok := rn.teid[p.TEID]; !ok {
					rn.teid[p.TEID] = fmt.Sprintf("T%d", len(rn.teid))
				}
			}
			if p.AllocUE && p.UE != 0 {
				if _, ok := rn.ue[p.UE]; !ok {
					rn.ue[p.UE] = fmt.Sprintf("U%d", len(rn.ue))
				}
			}
		}
		if x.GivenAddr != 0 {
			if _, ok := rn.ue[x.GivenAddr]; !ok {
				rn.ue[x.GivenAddr] = fmt.Sprintf("U%d", len(rn.ue))
			}
		}
	}
	return rn
}

func (rn *vRenamer) S(v uint64) string {
	if n, ok := rn.seid[v]; ok {
		return n
	}
	return fmt.Sprintf("s%x", v)
}
func (rn *vRenamer) T(v uint32) string {
	if n, ok := rn.teid[v]; ok {
		return n
	}
	return fmt.Sprint(v)
}
func (rn *vRenamer) U(v uint32) string {
	if n, ok := rn.ue[v]; ok {
		return n
	}
	return vIPStr(v)
}

func (s *sessSys) key() string {
	var b strings.Builder
	rn := s.renamer()
	fmt.Fprintf(&b, "assoc=%v gone=%v poisoned=%v\n", s.m.Assoc, s.m.Gone, s.poisoned)
	if s.lastRefused != "" {
		fmt.Fprintf(&b, "after-refused=%s\n", s.lastRefused)
	}
	for i, t := range s.m.PFD {
		if t != nil {
			ks := make([]string, 0, len(t))
			for k := range t {
				ks = append(ks, k)
			}
			sort.Strings(ks)
			for _, k := range ks {
				fmt.Fprintf(&b, "pfd%d %s=%q\n", i, k, t[k])
			}
		}
	}
	for _, x := range s.m.live(-1) {
		fmt.Fprintf(&b, "sess conn=%d cp=%x up=%s\n", x.Conn, x.CPSEID, rn.S(x.UPSEID))
		for _, p := range x.PDRs {
			pp := p.sPDR
			fmt.Fprintf(&b, " pdr %s teid=%s ue=%s\n", vJSON(pp), rn.T(p.TEID), rn.U(p.UE))
		}
		fmt.Fprintf(&b, " fars %s qers %s\n", vJSON(x.FARs), vJSON(x.QERs))
	}
	// implementation side
	for i, c := range s.in.conns {
		fmt.Fprintf(&b, "conn%d closed=%v node=%q stored=%d\n", i, c.sock.isClosed(), c.pc.nodeID.remote, len(c.pc.store.GetAllSessions()))
	}
	// the association's session store (rule lists in stored order: in-place shifting and aliasing live here)
	for i, c := range s.in.conns {
		var lines []string
		for _, ss := range c.pc.store.GetAllSessions() {
			l := fmt.Sprintf("store%d %s cp=%x", i, rn.S(ss.localSEID), ss.remoteSEID)
			for _, p := range ss.pdrs {
				l += fmt.Sprintf(" P(%d if=%d t=%s/%s ue=%s af=%s/%x,%s/%x,%d/%x,%v,%v prec=%d far=%d q=%v d=%d a=%v)", p.pdrID, p.srcIface, vIPStr(p.tunnelIP4Dst), rn.T(p.tunnelTEID),
					rn.U(p.ueAddress), rn.U(p.appFilter.srcIP), p.appFilter.srcIPMask, rn.U(p.appFilter.dstIP), p.appFilter.dstIPMask, p.appFilter.proto, p.appFilter.protoMask,
					p.appFilter.srcPortRange, p.appFilter.dstPortRange, p.precedence, p.farID, p.qerIDList, p.needDecap, p.allocIPFlag)
			}
			for _, f := range ss.fars {
				l += fmt.Sprintf(" F(%d a=%d d=%d tt=%d %s>%s t=%d p=%d em=%v)", f.farID, f.applyAction, f.dstIntf, f.tunnelType, vIPStr(f.tunnelIP4Src), vIPStr(f.tunnelIP4Dst), f.tunnelTEID, f.tunnelPort, f.sendEndMarker)
			}
			for _, q := range ss.qers {
				l += fmt.Sprintf(" Q(%d l=%d qfi=%d g=%d/%d m=%d/%d gb=%d/%d)", q.qerID, q.qosLevel, q.qfi, q.ulStatus, q.dlStatus, q.ulMbr, q.dlMbr, q.ulGbr, q.dlGbr)
			}
			lines = append(lines, l)
		}
		sort.Strings(lines)
		b.WriteString(strings.Join(lines, "\n") + "\n")
	}
	if s.in.fb != nil {
		b.WriteString(s.in.fb.digest(rn))
	}
	if s.in.p4 != nil {
		b.WriteString(s.in.p4.digest(rn))
	}
	if p := s.in.u.ippool; p != nil {
		p.mu.Lock()
		// The order of the free list depends on map iteration when an association with several sessions ends (Shutdown
		// ranges over a sync.Map); it only decides which literal address a later session gets, and every oracle is invariant
		// under renaming of addresses, so the key keeps the number of free addresses and the held ones under their renamed
		// form (a key with literal addresses made one history reach two keys: establish twice, release, associate, establish).
		fmt.Fprintf(&b, "pool free=%d inv=", len(p.freePool))
		var inv []string
		for k, v := range p.inventory {
			inv = append(inv, rn.S(k)+">"+rn.U(vIP4(v.String())))
		}
		sort.Strings(inv)
		fmt.Fprintln(&b, inv)
		p.mu.Unlock()
	}
	if s.keyExtra != nil {
		b.WriteString(s.keyExtra(s))
	}
	return b.String()
}

// digest renders the fake BESS tables with agent-chosen identifiers renamed.
func (f *fakeBESS) digest(rn *vRenamer) string {
	var lines []string
	for _, e := range f.pdrList() {
		lines = append(lines, fmt.Sprintf("P v=[%d %s %s %s %s %d %d %d] m=%x prio=%d gate=%d pdr=%d s=%s qer=%d far=%d",
			e.Values[0], vIPStr(uint32(e.Values[1])), rn.T(uint32(e.Values[2])), rn.U(uint32(e.Values[3])), rn.U(uint32(e.Values[4])),
			e.Values[5], e.Values[6], e.Values[7], e.Masks, e.Priority, e.Gate, e.PdrID, rn.S(e.FSEID), e.Qer, e.Far))
	}
	for _, e := range f.farList() {
		v := e.Values
		lines = append(lines, fmt.Sprintf("F far=%d s=%s gate=%d act=%d tt=%d src=%s dst=%s teid=%d port=%d", e.FarID, rn.S(e.FSEID), e.Gate,
			v[0], v[1], vIPStr(uint32(v[2])), vIPStr(uint32(v[3])), v[4], v[5]))
	}
	for _, mod := range []string{AppQerLookup, SessQerLookup, "sliceMeter"} {
		for _, e := range f.qosList(mod) {
			flds := make([]string, len(e.Fields))
			for i, x := range e.Fields {
				flds[i] = fmt.Sprint(x)
			}
			if len(flds) > 0 && mod != "sliceMeter" {
				flds[len(flds)-1] = rn.S(e.Fields[len(e.Fields)-1])
			}
			lines = append(lines, fmt.Sprintf("Q %s f=%v v=%v gate=%d cir=%d pir=%d cbs=%d pbs=%d ebs=%d", mod, flds, e.Values, e.Gate, e.Cir, e.Pir, e.Cbs, e.Pbs, e.Ebs))
		}
	}
	sort.Strings(lines)
	return strings.Join(lines, "\n") + "\n"
}
