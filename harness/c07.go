//go:build verif

// C07 - UP-chosen identifiers are unique among live users and are those programmed (sequential part). TEIDs: BFS over
// {Allocate, Free(x)} on the real FTEIDGenerator from non-initial states (cursor at the 32-bit wrap, used offsets ahead of
// the cursor and across the wrap point); SEIDs: establishment histories with scripted random sources; end-to-end: the
// F-SEID / F-TEIDs of the response are looked up in the datapath entries (both plug-ins).
package pfcpiface

import (
	"encoding/json"
	"fmt"
	"math"
	"sort"
	"strings"
	"testing"

	"github.com/wmnsk/go-pfcp/ie"
)

type c07Init struct {
	Offset uint32   `json:"offset"`
	Used   []uint32 `json:"used"` // offsets marked used (TEID = offset+1)
}

type c07Case struct {
	Init c07Init  `json:"init"`
	Ops  []string `json:"ops"` // "A" allocate, "F<k>" free the k-th oldest live TEID allocated in this history, "I<k>" free an initially used one
}

func c07Gen(i c07Init) *FTEIDGenerator {
	g := NewFTEIDGenerator()
	g.offset = i.Offset
	for _, u := range i.Used {
		g.usedMap[u] = true
	}
	return g
}

func c07Key(g *FTEIDGenerator) string {
	var u []string
	for k := range g.usedMap {
		u = append(u, fmt.Sprint(k))
	}
	sort.Strings(u)
	return fmt.Sprint(g.offset) + "|" + strings.Join(u, ",")
}

// c07Replay runs ops on a fresh generator; returns the violation (or "") and the final generator + live list.
func c07Replay(cs c07Case) (string, *FTEIDGenerator, []uint32) {
	g := c07Gen(cs.Init)
	live := map[uint32]bool{}
	for _, u := range cs.Init.Used {
		live[u+1] = true
	}
	var mine []uint32
	for _, op := range cs.Ops {
		switch op[0] {
		case 'A':
			var id uint32
			var err error
			fr, msg := vCatch(func() { id, err = g.Allocate() })
			if fr != "" {
				return "panic: " + msg, g, mine
			}
			if err != nil {
				return "refused: allocation refused with only " + fmt.Sprint(len(live)) + " TEIDs live", g, mine
			}
			if id == 0 {
				return "zero: TEID 0 handed out", g, mine
			}
			if live[id] {
				return fmt.Sprintf("reused: TEID %#x handed out while it is still live", id), g, mine
			}
			live[id] = true
			mine = append(mine, id)
		case 'F':
			var k int
			fmt.Sscan(op[1:], &k)
			if k < len(mine) {
				id := mine[k]
				mine = append(mine[:k:k], mine[k+1:]...)
				g.FreeID(id)
				delete(live, id)
			}
		case 'I':
			var k int
			fmt.Sscan(op[1:], &k)
			if k < len(cs.Init.Used) && live[cs.Init.Used[k]+1] {
				g.FreeID(cs.Init.Used[k] + 1)
				delete(live, cs.Init.Used[k]+1)
			}
		}
		if len(g.usedMap) != len(live) {
			return fmt.Sprintf("books: %d TEIDs marked used, %d live", len(g.usedMap), len(live)), g, mine
		}
	}
	return "", g, mine
}

func c07Inits() []c07Init {
	m := uint32(math.MaxUint32) // offsets run modulo 2^32-1: 0 .. 2^32-2
	return []c07Init{
		{0, nil},
		{m - 2, nil}, {m - 1, nil},
		{m - 3, []uint32{m - 2, m - 1}}, // used run up to the wrap point
		{m - 2, []uint32{m - 1, 0, 1}},  // used run across the wrap point
		{m - 1, []uint32{0}}, {m - 1, []uint32{m - 1, 0, 1, 2}},
		{5, []uint32{5, 6, 7}}, {5, []uint32{6, 8}}, {0, []uint32{0, 1, 3}},
	}
}

func TestVerifC07(t *testing.T) {
	vQuietLoggers()
	res := vNewResult()
	defer res.write(t)
	depth := 7
	if vEnv.Thorough {
		depth = 9
	}
	res.Rule = fmt.Sprintf("real FTEIDGenerator: BFS to depth %d over {Allocate, Free(k-th live TEID of the history), Free(an initially used TEID)} from 10 initial states (cursor 0, at 2^32-3..2^32-1, used runs ahead of the cursor, "+
		"up to and across the wrap point, with gaps), states de-duplicated by (cursor, used set); F-SEIDs: establishment histories with scripted random sources (constant, period 2/3, zero, value in use) on both plug-ins with the "+
		"datapath image oracle (reported F-SEID / F-TEID = programmed); concurrent part: TestVerifC0607Sched. distinct_nontrivial = distinct generator states + SEID histories", depth)
	res.Assumptions = []string{"the 'no value left' refusal needs 2^32-1 live TEIDs and is out of reach of any execution: not covered"}
	if rc := vReplayCase(); rc != nil {
		var probe map[string]json.RawMessage
		json.Unmarshal(rc, &probe)
		if _, ok := probe["history"]; ok {
			var c seqCase
			json.Unmarshal(rc, &c)
			var sc c02Scenario
			json.Unmarshal(c.Scenario, &sc)
			ex := &seqExplorer{res: res, scenario: sc}
			ex.mk = func() seqSys { return c07SeidSys(ex, res, sc) }
			ex.replay(c)
			return
		}
		var cs c07Case
		json.Unmarshal(rc, &cs)
		if v, _, _ := c07Replay(cs); v != "" {
			res.finding("c07:teid-"+strings.SplitN(v, ":", 2)[0], v, cs)
		}
		res.Evaluations++
		return
	}
	for ii, init := range c07Inits() {
		if !vMine(ii) {
			continue
		}
		seen := map[string]bool{}
		frontier := []c07Case{{Init: init}}
		for d := 0; d < depth; d++ {
			var next []c07Case
			for _, cs := range frontier {
				_, _, mine := c07Replay(cs)
				ops := []string{"A"}
				for k := range mine {
					if k < 3 {
						ops = append(ops, fmt.Sprintf("F%d", k))
					}
				}
				for k := range init.Used {
					ops = append(ops, fmt.Sprintf("I%d", k))
				}
				for _, op := range ops {
					c2 := c07Case{Init: init, Ops: append(append([]string{}, cs.Ops...), op)}
					v, g, _ := c07Replay(c2)
					res.Evaluations++
					res.Transitions++
					if v != "" {
						res.finding("c07:teid-"+strings.SplitN(v, ":", 2)[0], fmt.Sprintf("%s (initial cursor %d used %v, ops %v)", v, init.Offset, init.Used, c2.Ops), c2)
						continue
					}
					k := c07Key(g)
					if !seen[k] {
						seen[k] = true
						res.States++
						res.Distinct++
						next = append(next, c2)
					}
				}
			}
			frontier = next
		}
	}
	// ---- F-SEIDs and "reported = programmed" through establishment histories
	scs := []c02Scenario{
		// one association per scripted source: the same script on two associations would give their sessions equal SEIDs, which
		// the statement allows (uniqueness is per association) and which real random sources make a 2^-64 event
		{"bess-rng-repeat", vCfg{NConns: 1, RngScript: []uint64{5}}},
		{"bess-rng-period2", vCfg{NConns: 1, RngScript: []uint64{7, 7, 9, 7, 9, 9, 11}}},
		{"bess-rng-period3", vCfg{NConns: 1, RngScript: []uint64{3, 4, 5, 3, 4, 5, 3, 4, 5, 6}}},
		{"bess-rng-zero-then", vCfg{NConns: 1, RngScript: []uint64{0, 0, 8, 0, 8, 9}}},
		{"bess-uealloc-choose", vCfg{NConns: 2, UEIPAlloc: true, Pool: "10.250.0.0/29"}},
		{"up4-uealloc-choose", vCfg{NConns: 2, P4: true, UEIPAlloc: true, Pool: "10.250.0.0/29", P4Conf: &vP4Cfg{DefaultTC: 3, UEPool: "10.250.0.0/29"}}},
		{"up4-rng-period2", vCfg{NConns: 1, P4: true, RngScript: []uint64{7, 7, 9, 7, 9, 9, 11}, P4Conf: &vP4Cfg{DefaultTC: 3}}},
	}
	for i, sc := range scs {
		if !vMine(10 + i) {
			continue
		}
		sc := sc
		d := 5
		if vEnv.Thorough {
			d = 6
		}
		ex := &seqExplorer{res: res, scenario: sc, depth: d}
		ex.mk = func() seqSys { return c07SeidSys(ex, res, sc) }
		ex.explore(nil)
		res.Distinct += ex.stats.States
	}
	res.sample(c07Case{Init: c07Inits()[4], Ops: []string{"A", "A", "F0", "A", "I1", "A"}})
}

func c07Alphabet(s *sessSys) []sessReq {
	var out []sessReq
	add := func(label string, r sessReq) {
		r.Label = label
		out = append(out, r)
	}
	for c := 0; c < len(s.in.conns); c++ {
		if s.m.Assoc[c] == "" {
			add("assoc", sessReq{sReq: sReq{Kind: kAssoc, Conn: c}})
			continue
		}
		if len(s.m.live(-1)) < 3 {
			n := len(s.m.Sess)
			if s.in.cfg.UEIPAlloc {
				p, f, q := up4RuleSet("", 0, c04Peers[0], "", 1, 0)
				p[0].FTEID, p[0].UEIP = &sFTEID{Choose: true}, ""
				p[1].UEIP, p[1].UEAlloc = "", true
				if !s.in.cfg.P4 {
					p[0].UEIP = fmt.Sprintf("16.0.%d.%d", c, n+1) // BESS uplink rules carry their own UE address
					p[1].UEAlloc, p[1].UEIP = false, p[0].UEIP
				}
				add("est-choose", sessReq{sReq: sReq{Kind: kEst, Conn: c, CPSEID: uint64(10 + n), CreatePDR: p, CreateFAR: f, CreateQER: q}})
				if c == 0 && !s.in.cfg.P4 {
					// more rules than the handlers' initial slice capacity (12 Create PDRs), the CHOOSE rule first
					pm := append([]sPDR{}, p...)
					for k := 0; k < 5; k++ {
						pm = append(pm, sdfPDRs(uint16(11+2*k), p[0].UEIP, uint32(0x900+n), uint32(40+k), fmt.Sprintf("permit out udp from 10.9.%d.0/24 53 to assigned", k), 1, 2, p[0].QERs)...)
					}
					add("est-choose-12pdrs", sessReq{sReq: sReq{Kind: kEst, Conn: c, CPSEID: uint64(10 + n), CreatePDR: pm, CreateFAR: f, CreateQER: q}})
				}
			} else {
				p, f, q := up4RuleSet(fmt.Sprintf("16.0.%d.%d", c, n+1), uint32(0x100+n), c04Peers[0], "", 1, 0)
				add("est-basic", sessReq{sReq: sReq{Kind: kEst, Conn: c, CPSEID: uint64(10 + n), CreatePDR: p, CreateFAR: f, CreateQER: q}})
			}
		}
		for _, x := range s.m.live(c) {
			add("del", sessReq{sReq: sReq{Kind: kDel, Conn: c}, Sess: x.Idx})
			if c == 0 && s.in.cfg.UEIPAlloc && !s.in.cfg.P4 && x.pdr(8) == nil && x.pdr(1) != nil {
				// a modification adds an uplink rule and asks the UP to choose its tunnel endpoint (BESS only: UP4 keys uplink
				// terminations by UE address and application, under which a second plain uplink rule is the first one)
				p1 := x.pdr(1).sPDR
				add("mod-create-choose-pdr", sessReq{sReq: sReq{Kind: kMod, Conn: c, CreatePDR: []sPDR{{ID: 8, Prec: 90, Src: ie.SrcInterfaceAccess, FTEID: &sFTEID{Choose: true}, UEIP: p1.UEIP, Decap: true, FAR: 1, QERs: p1.QERs}}}, Sess: x.Idx})
				// ... and the same request made unacceptable by a Remove FAR that names no rule
				add("mod-create-choose-pdr-refused", sessReq{sReq: sReq{Kind: kMod, Conn: c, CreatePDR: []sPDR{{ID: 8, Prec: 90, Src: ie.SrcInterfaceAccess, FTEID: &sFTEID{Choose: true}, UEIP: p1.UEIP, Decap: true, FAR: 1, QERs: p1.QERs}}, RemoveFAR: []uint32{99}}, Sess: x.Idx})
			}
			if c == 0 && x.pdr(1) != nil && x.pdr(1).ChoseTEID {
				// the PDR that owns the UP-chosen TEID is removed (accepted), or removed by a request that is then refused
				add("mod-remove-choose-pdr", sessReq{sReq: sReq{Kind: kMod, Conn: c, RemovePDR: []uint16{1}}, Sess: x.Idx})
				add("mod-remove-choose-pdr-then-unknown-far", sessReq{sReq: sReq{Kind: kMod, Conn: c, RemovePDR: []uint16{1}, RemoveFAR: []uint32{99}}, Sess: x.Idx})
			}
		}
	}
	return out
}

func c07Oracle(c *stepCtx) {
	s := c.sys
	if c.pframe != "" {
		s.violation("c07:panic:"+c.pframe, c.pmsg)
		return
	}
	if l := vLeakedLock(s.in.u); l != "" {
		s.violation("c07:lock-held-after-request:"+l, fmt.Sprintf("%s is still held after %s returned: the next request that needs it blocks the receive loop", l, c.req.Label))
		return
	}
	if c.req.Kind == kEst && c.accepted && c.newSess != nil {
		for _, o := range s.m.live(c.req.Conn) {
			if o != c.newSess && o.UPSEID == c.newSess.UPSEID {
				s.violation("c07:fseid-reused", fmt.Sprintf("UP F-SEID %#x given to a second live session of the association", o.UPSEID))
			}
		}
		if c.newSess.UPSEID == 0 {
			s.violation("c07:fseid-zero", "UP F-SEID 0")
		}
		// every UP-chosen TEID: non-zero, different from every other live chosen TEID (across associations)
		for _, p := range c.newSess.PDRs {
			if !p.ChoseTEID {
				continue
			}
			if p.TEID == 0 {
				s.violation("c07:teid-zero", "CHOOSE F-TEID answered with TEID 0")
			}
			for _, o := range s.m.live(-1) {
				for _, q := range o.PDRs {
					if q.ChoseTEID && q.TEID == p.TEID && !(o == c.newSess && q.ID == p.ID) {
						s.violation("c07:teid-reused", fmt.Sprintf("TEID %#x chosen for two live PDRs", p.TEID))
					}
				}
			}
		}
	}
	if c.req.Kind == kMod && c.accepted {
		for _, p := range c.req.CreatePDR {
			if p.FTEID != nil && p.FTEID.Choose {
				if q := c.sess.pdr(p.ID); q != nil && q.TEID == 0 {
					// (reported without ending the history here: what follows such a rule is explored as well)
					s.res.finding("c07:teid-zero-in-modification", fmt.Sprintf("a Session Modification whose Create PDR %d asks the UP to choose the F-TEID is accepted; no TEID is chosen or reported and the rule is programmed with TEID 0", p.ID), s.ex.replayCase())
				}
			}
		}
	}
	// the generator's books cover the live set at every step: a live UP-chosen TEID that the generator considers free
	// is handed to a second user once the 32-bit cursor comes round
	for _, o := range s.m.live(-1) {
		for _, q := range o.PDRs {
			if q.ChoseTEID && q.TEID != 0 && !s.in.u.fteidGenerator.IsAllocated(q.TEID) {
				s.violation("c07:live-teid-free:after="+c.req.Label, fmt.Sprintf("TEID %#x is still programmed for a live PDR but the generator considers it free (after %s)", q.TEID, c.req.Label))
			}
		}
	}
	if c.req.Kind == kEst && !c.accepted && c.resp != nil && s.in.cfg.RngScript != nil {
		s.res.outcome(fmt.Sprintf("est-refused-cause-%d", c.resp.Cause))
	}
	// reported = programmed: the image oracles compare the entries with the identifiers taken from the response
	if s.in.fb != nil {
		for _, v := range bessImageCheck(s) {
			s.violation("c07:programmed-differs:"+v.class, "the datapath entries do not carry the identifiers reported to the control plane: "+v.desc)
			return
		}
	}
	if s.in.p4 != nil {
		for _, v := range up4ImageCheck(s) {
			s.violation("c07:programmed-differs:"+v.class, "the datapath entries do not carry the identifiers reported to the control plane: "+v.desc)
			return
		}
	}
}

func c07SeidSys(ex *seqExplorer, res *vResult, sc c02Scenario) *sessSys {
	s := newSessSys(ex, res, sc.Cfg, c07Alphabet, c07Oracle)
	s.poisonOnViolation = true
	return s
}
