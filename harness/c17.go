//go:build verif

// C17 - port ranges are expanded exactly or refused. Engine ENUM: the real expansion functions are run on a
// completely enumerated input set and the produced rules are compared, by interval algebra, with the set the
// range denotes.
package pfcpiface

import (
	"encoding/json"
	"fmt"
	"sort"
	"testing"
)

type c17Iv struct{ lo, hi uint32 } // closed interval of ports

// c17RuleSet returns the set of ports matched by a ternary rule as sorted disjoint intervals.
func c17RuleSet(port, mask uint16) []c17Iv {
	inv := ^mask
	if inv&(inv+1) == 0 { // mask is a prefix mask: ones followed by zeros
		base := port & mask
		return []c17Iv{{uint32(base), uint32(base | inv)}}
	}
	var out []c17Iv
	for p := uint32(0); p <= 0xFFFF; p++ {
		if uint16(p)&mask == port&mask {
			if n := len(out); n > 0 && out[n-1].hi+1 == p {
				out[n-1].hi = p
			} else {
				out = append(out, c17Iv{p, p})
			}
		}
	}
	return out
}

func c17Union(sets ...[]c17Iv) []c17Iv {
	var all []c17Iv
	for _, s := range sets {
		all = append(all, s...)
	}
	sort.Slice(all, func(i, j int) bool { return all[i].lo < all[j].lo })
	var out []c17Iv
	for _, iv := range all {
		if n := len(out); n > 0 && iv.lo <= out[n-1].hi+1 {
			if iv.hi > out[n-1].hi {
				out[n-1].hi = iv.hi
			}
		} else {
			out = append(out, iv)
		}
	}
	return out
}

// c17Denotes is the reference: the set a (low, high) pair denotes. 0-0 is by documented design the zero value
// and means wildcard; an inverted pair denotes the empty set.
func c17Denotes(low, high uint16) []c17Iv {
	if low == 0 && high == 0 {
		return []c17Iv{{0, 0xFFFF}}
	}
	if low > high {
		return nil
	}
	return []c17Iv{{uint32(low), uint32(high)}}
}

func c17Equal(a, b []c17Iv) bool {
	if len(a) != len(b) {
		return false
	}
	for i := range a {
		if a[i] != b[i] {
			return false
		}
	}
	return true
}

// c17CheckSingle validates one expansion of one range. Fast path: consecutive prefix-mask rules that tile
// [low, high] from left to right (what the code produces); anything else goes through the general union.
func c17CheckSingle(low, high uint16, rules []portRangeTernaryRule, err error) string {
	if err != nil {
		if len(rules) != 0 {
			return "error returned together with rules"
		}
		return ""
	}
	want := c17Denotes(low, high)
	fullWild := (low == 0 && high == 0xFFFF) || (low == 0 && high == 0)
	next := uint32(low)
	fast := len(want) == 1 && !(low == 0 && high == 0)
	if fast {
		for _, r := range rules {
			inv := ^r.mask
			if inv&(inv+1) != 0 || uint32(r.port&r.mask) != next {
				fast = false
				break
			}
			next = uint32(r.port&r.mask|inv) + 1
		}
		if fast && next == uint32(high)+1 {
			if !fullWild {
				for _, r := range rules {
					if r.mask == 0 {
						return "wildcard rule for a range that is not 0-65535"
					}
				}
			}
			return ""
		}
	}
	sets := make([][]c17Iv, 0, len(rules))
	for _, r := range rules {
		if r.mask == 0 && !fullWild {
			return "wildcard rule for a range that is not 0-65535"
		}
		sets = append(sets, c17RuleSet(r.port, r.mask))
	}
	got := c17Union(sets...)
	if !c17Equal(got, want) {
		return fmt.Sprintf("rules match %v, range denotes %v", got, want)
	}
	return ""
}

type c17Case struct {
	Fn       string `json:"fn"`
	Strategy int    `json:"strategy"`
	Low      uint16 `json:"low"`
	High     uint16 `json:"high"`
	Low2     uint16 `json:"low2"`
	High2    uint16 `json:"high2"`
	Text     string `json:"text,omitempty"`
}

func c17Run(c c17Case) (verdict string, nontrivial bool) {
	switch c.Fn {
	case "complex":
		var rules []portRangeTernaryRule
		var err error
		fr, msg := vCatch(func() {
			rules, err = portRange{c.Low, c.High}.asComplexTernaryMatches(RangeConversionStrategy(c.Strategy))
		})
		if fr != "" {
			return "panic in " + fr + ": " + msg, false
		}
		return c17CheckSingle(c.Low, c.High, rules, err), err == nil && len(rules) > 1
	case "trivial":
		pr := portRange{c.Low, c.High}
		r, err := pr.asTrivialTernaryMatch()
		if err != nil {
			return "", false
		}
		return c17CheckSingle(c.Low, c.High, []portRangeTernaryRule{r}, nil), pr.isExactMatch()
	case "classify":
		pr := portRange{c.Low, c.High}
		w, e, g := pr.isWildcardMatch(), pr.isExactMatch(), pr.isRangeMatch()
		n := 0
		for _, b := range []bool{w, e, g} {
			if b {
				n++
			}
		}
		if n != 1 {
			return "range belongs to != 1 class", false
		}
		wantW := (c.Low == 0 && c.High == 0xFFFF) || (c.Low == 0 && c.High == 0)
		wantE := c.Low == c.High && !wantW
		if w != wantW || e != wantE {
			return fmt.Sprintf("classified wildcard=%v exact=%v, want %v %v", w, e, wantW, wantE), false
		}
		if c.Low <= c.High && !w {
			if got := pr.Width(); uint32(got) != uint32(c.High)-uint32(c.Low)+1 {
				return fmt.Sprintf("Width()=%d", got), false
			}
		}
		return "", e
	case "product":
		src, dst := portRange{c.Low, c.High}, portRange{c.Low2, c.High2}
		var rules []portRangeTernaryCartesianProduct
		var err error
		fr, msg := vCatch(func() { rules, err = CreatePortRangeCartesianProduct(src, dst) })
		if fr != "" {
			return "panic in " + fr + ": " + msg, false
		}
		if err != nil {
			if len(rules) != 0 {
				return "error returned together with rules", false
			}
			return "", false
		}
		if v := c17CheckProduct(src, dst, rules); v != "" {
			return v, len(rules) > 1
		}
		// a result stays what it is while other pairs are expanded (a caller holds several at once: one PDR each)
		snapshot := append([]portRangeTernaryCartesianProduct{}, rules...)
		for _, o := range [][2]portRange{{{1, 9}, {0, 0xFFFF}}, {{0, 0xFFFF}, {65505, 65535}}, {{80, 80}, {0, 0xFFFF}}} {
			vCatch(func() { CreatePortRangeCartesianProduct(o[0], o[1]) })
		}
		for i := range snapshot {
			if i >= len(rules) || rules[i] != snapshot[i] {
				return "the returned entries changed while another pair was being expanded (shared buffer)", len(rules) > 1
			}
		}
		return "", len(rules) > 1
	case "parseport":
		var ep endpoint
		ep.ports = portRange{7, 7}
		err := ep.parsePort(c.Text)
		if err != nil {
			return "", false
		}
		// an accepted "lo-hi" text must yield exactly that range (c.Low/c.High hold what was written)
		if c.Low > c.High {
			return "inverted range text accepted: " + c.Text, false
		}
		if ep.ports.low != c.Low || ep.ports.high != c.High {
			return fmt.Sprintf("text %q parsed as %v", c.Text, ep.ports), false
		}
		return "", c.Low != c.High
	}
	return "unknown case kind", false
}

// c17CheckProduct: union of the rule rectangles == src set x dst set. Coordinate compression on both axes.
func c17CheckProduct(src, dst portRange, rules []portRangeTernaryCartesianProduct) string {
	wantS, wantD := c17Denotes(src.low, src.high), c17Denotes(dst.low, dst.high)
	srcWild := (src.low == 0 && src.high == 0xFFFF) || (src.low == 0 && src.high == 0)
	dstWild := (dst.low == 0 && dst.high == 0xFFFF) || (dst.low == 0 && dst.high == 0)
	type rect struct{ s, d []c17Iv }
	var rs []rect
	cutS, cutD := map[uint32]bool{0: true, 0x10000: true}, map[uint32]bool{0: true, 0x10000: true}
	addCuts := func(m map[uint32]bool, ivs []c17Iv) {
		for _, iv := range ivs {
			m[iv.lo] = true
			m[iv.hi+1] = true
		}
	}
	addCuts(cutS, wantS)
	addCuts(cutD, wantD)
	for _, r := range rules {
		if r.srcMask == 0 && !srcWild {
			return "source wildcard for a source range that is not 0-65535"
		}
		if r.dstMask == 0 && !dstWild {
			return "destination wildcard for a destination range that is not 0-65535"
		}
		x := rect{c17RuleSet(r.srcPort, r.srcMask), c17RuleSet(r.dstPort, r.dstMask)}
		addCuts(cutS, x.s)
		addCuts(cutD, x.d)
		rs = append(rs, x)
	}
	keys := func(m map[uint32]bool) []uint32 {
		var k []uint32
		for v := range m {
			k = append(k, v)
		}
		sort.Slice(k, func(i, j int) bool { return k[i] < k[j] })
		return k
	}
	in := func(ivs []c17Iv, p uint32) bool {
		for _, iv := range ivs {
			if p >= iv.lo && p <= iv.hi {
				return true
			}
		}
		return false
	}
	ks, kd := keys(cutS), keys(cutD)
	for i := 0; i+1 < len(ks); i++ {
		for j := 0; j+1 < len(kd); j++ {
			ps, pd := ks[i], kd[j]
			want := in(wantS, ps) && in(wantD, pd)
			got := false
			for _, x := range rs {
				if in(x.s, ps) && in(x.d, pd) {
					got = true
					break
				}
			}
			if got != want {
				return fmt.Sprintf("packet (sport=%d,dport=%d): matched=%v, denoted=%v", ps, pd, got, want)
			}
		}
	}
	return ""
}

func c17Boundary() []uint16 {
	m := map[uint16]bool{}
	add := func(v int) {
		if v >= 0 && v <= 0xFFFF {
			m[uint16(v)] = true
		}
	}
	for b := 0; b <= 16; b++ {
		for d := -2; d <= 2; d++ {
			add(1<<b + d)
		}
	}
	for _, v := range []int{0, 1, 2, 3, 99, 100, 101, 102, 199, 200, 201, 1023, 1024, 5060, 8080, 65433, 65434, 65435, 65436, 65533, 65534, 65535, 43690, 21845} {
		add(v)
	}
	var out []uint16
	for v := range m {
		out = append(out, v)
	}
	sort.Slice(out, func(i, j int) bool { return out[i] < out[j] })
	return out
}

func TestVerifC17(t *testing.T) {
	vQuietLoggers()
	res := vNewResult()
	defer res.write(t)
	res.Rule = "every (low,high) pair of the stated sets is expanded by the real functions (asComplexTernaryMatches Exact+Ternary, " +
		"asTrivialTernaryMatch, classification predicates, CreatePortRangeCartesianProduct, parsePort) and compared by interval algebra " +
		"with the set the pair denotes; distinct_nontrivial counts accepted inputs that are not a trivial single wildcard rule " +
		"(multi-rule expansions, exact matches, true-range texts); every input is visited once, so they are distinct by construction"
	res.Assumptions = []string{"0-0 is the documented zero value and denotes wildcard", "an inverted pair denotes the empty set",
		"a ternary rule (port,mask) matches p iff p&mask == port&mask"}

	report := func(c c17Case, verdict string) {
		sig := fmt.Sprintf("c17:%s:s%d", c.Fn, c.Strategy)
		res.finding(sig, fmt.Sprintf("%s on %+v: %s", c.Fn, c, verdict), c)
	}
	do := func(c c17Case) {
		v, nt := c17Run(c)
		res.Evaluations++
		if nt {
			res.Distinct++
		}
		if v != "" {
			report(c, v)
		}
	}
	if rc := vReplayCase(); rc != nil {
		var c c17Case
		if err := json.Unmarshal(rc, &c); err != nil {
			t.Fatal(err)
		}
		do(c)
		return
	}

	bnd := c17Boundary()
	isB := map[uint16]bool{}
	for _, b := range bnd {
		isB[b] = true
	}
	full := vEnv.Thorough
	// --- single-range expansion, both strategies; classification and trivial conversion incl. inverted pairs
	for low := 0; low <= 0xFFFF; low++ {
		if !vMine(low) {
			continue
		}
		if res.expired() {
			break
		}
		lowB := isB[uint16(low)]
		for high := 0; high <= 0xFFFF; high++ {
			l, h := uint16(low), uint16(high)
			sel := full || (low < 2048 && high < 2048) || (lowB && isB[h]) || (high >= low && high-low <= 130 && (lowB || isB[h] || low%97 == 0))
			if !sel {
				continue
			}
			do(c17Case{Fn: "classify", Low: l, High: h})
			do(c17Case{Fn: "trivial", Low: l, High: h})
			if high >= low || lowB {
				do(c17Case{Fn: "complex", Strategy: int(Ternary), Low: l, High: h})
				do(c17Case{Fn: "complex", Strategy: int(Exact), Low: l, High: h})
			}
		}
	}
	res.sample(c17Case{Fn: "complex", Strategy: int(Ternary), Low: 1, High: 65534})
	res.sample(c17Case{Fn: "complex", Strategy: int(Exact), Low: 1000, High: 1099})
	// --- cartesian products over boundary-class ranges (both orders arise naturally)
	var ranges []portRange
	for _, a := range bnd {
		for _, w := range []int{0, 1, 2, 50, 99, 100, 101, 65535} {
			if hi := int(a) + w; hi <= 0xFFFF {
				ranges = append(ranges, portRange{a, uint16(hi)})
			}
		}
	}
	ranges = append(ranges, portRange{5, 3}, portRange{65535, 0}) // inverted struct literals
	if !full {
		var r2 []portRange
		for i, r := range ranges {
			if i%5 == 0 || r.low == 0 || r.high == 0xFFFF {
				r2 = append(r2, r)
			}
		}
		ranges = r2
	}
	idx := 0
	for _, s := range ranges {
		for _, d := range ranges {
			idx++
			if !vMine(idx) {
				continue
			}
			do(c17Case{Fn: "product", Low: s.low, High: s.high, Low2: d.low, High2: d.high})
		}
	}
	res.sample(c17Case{Fn: "product", Low: 80, High: 80, Low2: 1000, High2: 1050})
	res.Extra["product_ranges"] = len(ranges)
	// --- port texts: "lo-hi" and "p" for boundary values (thorough: all lo-hi with lo in shard)
	for i, a := range bnd {
		if !vMine(i) {
			continue
		}
		do(c17Case{Fn: "parseport", Text: fmt.Sprint(a), Low: a, High: a})
		for _, b := range bnd {
			do(c17Case{Fn: "parseport", Text: fmt.Sprintf("%d-%d", a, b), Low: a, High: b})
		}
	}
	if full {
		for low := 0; low <= 0xFFFF && !res.expired(); low++ {
			if !vMine(low) {
				continue
			}
			for high := 0; high <= 0xFFFF; high += 1 {
				if (low+high)%64 != 0 && !isB[uint16(high)] { // every 64th diagonal + boundary columns: 2^26 texts
					continue
				}
				do(c17Case{Fn: "parseport", Text: fmt.Sprintf("%d-%d", low, high), Low: uint16(low), High: uint16(high)})
			}
		}
	}
	res.Extra["tier_full_domain"] = full
}
