//go:build verif

// Reference reader of the IPFilterRule grammar of the property statements (C03, C08):
//
//	(permit|deny) (in|out) (ip|tcp|udp|<number>) from <ep> [ports] to <ep> [ports]
//	<ep> = any | assigned | a.b.c.d[/len]     ports = p | lo-hi
//
// Independent of the repository's parser: a plain recursive-descent reader over whitespace-separated tokens.
package pfcpiface

import (
	"fmt"
	"net"
	"strconv"
	"strings"
)

type refEndpoint struct {
	Assigned bool
	IP       uint32
	Len      int // prefix length
	HasPort  bool
	Lo, Hi   uint16
}

type refFlow struct {
	Action, Dir string
	Proto       int // -1 = ip (any)
	Src, Dst    refEndpoint
}

func refParsePorts(s string) (lo, hi uint16, err error) {
	parts := strings.Split(s, "-")
	if len(parts) < 1 || len(parts) > 2 {
		return 0, 0, fmt.Errorf("bad port token %q", s)
	}
	l, e := strconv.ParseUint(parts[0], 10, 16)
	if e != nil {
		return 0, 0, e
	}
	h := l
	if len(parts) == 2 {
		if h, e = strconv.ParseUint(parts[1], 10, 16); e != nil {
			return 0, 0, e
		}
	}
	if l > h {
		return 0, 0, fmt.Errorf("inverted range %q", s)
	}
	return uint16(l), uint16(h), nil
}

func refParseEndpoint(tok string) (refEndpoint, error) {
	switch tok {
	case "any":
		return refEndpoint{Len: 0}, nil
	case "assigned":
		return refEndpoint{Assigned: true, Len: 32}, nil
	}
	ipS, l := tok, 32
	if i := strings.IndexByte(tok, '/'); i >= 0 {
		ipS = tok[:i]
		n, err := strconv.Atoi(tok[i+1:])
		if err != nil || n < 0 || n > 32 || strings.Count(tok, "/") != 1 {
			return refEndpoint{}, fmt.Errorf("bad prefix length in %q", tok)
		}
		l = n
	}
	ip := net.ParseIP(ipS).To4()
	if ip == nil || strings.Count(ipS, ".") != 3 {
		return refEndpoint{}, fmt.Errorf("bad address %q", tok)
	}
	v := uint32(ip[0])<<24 | uint32(ip[1])<<16 | uint32(ip[2])<<8 | uint32(ip[3])
	if l < 32 {
		if l == 0 {
			v = 0
		} else {
			v &= ^uint32(0) << (32 - uint(l))
		}
	}
	return refEndpoint{IP: v, Len: l}, nil
}

// refParseFlow reads a flow description strictly by the grammar; any deviation is an error ("structurally malformed").
func refParseFlow(s string) (*refFlow, error) {
	t := strings.Fields(s)
	if len(t) < 7 {
		return nil, fmt.Errorf("too few tokens")
	}
	f := &refFlow{Action: t[0], Dir: t[1]}
	if t[0] != "permit" && t[0] != "deny" {
		return nil, fmt.Errorf("unknown action")
	}
	if t[1] != "in" && t[1] != "out" {
		return nil, fmt.Errorf("unknown direction")
	}
	switch t[2] {
	case "ip":
		f.Proto = -1
	case "tcp":
		f.Proto = 6
	case "udp":
		f.Proto = 17
	default:
		n, err := strconv.ParseUint(t[2], 10, 8)
		if err != nil {
			return nil, fmt.Errorf("unknown protocol")
		}
		f.Proto = int(n)
	}
	i := 3
	if t[i] != "from" {
		return nil, fmt.Errorf("'from' expected")
	}
	i++
	ep, err := refParseEndpoint(t[i])
	if err != nil {
		return nil, err
	}
	f.Src = ep
	i++
	if i >= len(t) {
		return nil, fmt.Errorf("'to' expected")
	}
	if t[i] != "to" {
		lo, hi, err := refParsePorts(t[i])
		if err != nil {
			return nil, err
		}
		f.Src.HasPort, f.Src.Lo, f.Src.Hi = true, lo, hi
		i++
	}
	if i >= len(t) || t[i] != "to" {
		return nil, fmt.Errorf("'to' expected")
	}
	i++
	if i >= len(t) {
		return nil, fmt.Errorf("destination expected")
	}
	if ep, err = refParseEndpoint(t[i]); err != nil {
		return nil, err
	}
	f.Dst = ep
	i++
	if i < len(t) {
		lo, hi, err := refParsePorts(t[i])
		if err != nil {
			return nil, err
		}
		f.Dst.HasPort, f.Dst.Lo, f.Dst.Hi = true, lo, hi
		i++
	}
	if i != len(t) {
		return nil, fmt.Errorf("trailing tokens")
	}
	return f, nil
}

func refMask(l int) uint32 {
	if l <= 0 {
		return 0
	}
	return ^uint32(0) << (32 - uint(l))
}
