//go:build verif

// C19 - the slice-configuration REST endpoint programs what was posted, or nothing. Engine ENUM over the real
// ConfigHandler.ServeHTTP (httptest) on both plug-ins: methods x bodies (value lattice, truncations, wrong types,
// unreadable body), single requests and ordered pairs of requests on one instance.
package pfcpiface

import (
	"encoding/json"
	"errors"
	"fmt"
	"io"
	"math"
	"math/big"
	"net/http"
	"net/http/httptest"
	"strings"
	"testing"
)

type c19Doc struct {
	Name   string `json:"name"`
	UL, DL uint64
	Unit   string `json:"unit"` // "" = absent
	ULB    uint64
	DLB    uint64
	NoUnit bool
}

func (d c19Doc) body() string {
	unit := ""
	if !d.NoUnit {
		unit = fmt.Sprintf(`"bitrateUnit":%q,`, d.Unit)
	}
	return fmt.Sprintf(`{"sliceName":%q,"sliceQos":{"uplinkMbr":%d,"downlinkMbr":%d,%s"uplinkBurstSize":%d,"downlinkBurstSize":%d},"ueResourceInfo":[{"uePoolId":"pool1","dnn":"internet"}]}`,
		d.Name, d.UL, d.DL, unit, d.ULB, d.DLB)
}

// c19Convert: rate in bit/s by the stated unit (Mbps when unstated or unknown); ok=false when the statement asserts nothing
// (rate zero, or the product does not fit in 63 bits).
func c19Convert(v uint64, d c19Doc) (bps uint64, ok bool) {
	mult := uint64(1000000)
	if !d.NoUnit {
		switch d.Unit {
		case "bps":
			mult = 1
		case "Kbps":
			mult = 1000
		case "Gbps":
			mult = 1000000000
		}
	}
	p := new(big.Int).Mul(new(big.Int).SetUint64(v), new(big.Int).SetUint64(mult))
	if v == 0 || p.BitLen() > 63 {
		return 0, false
	}
	return p.Uint64(), true
}

type c19Writer struct {
	hdr   http.Header
	codes []int
	body  strings.Builder
}

func (w *c19Writer) Header() http.Header { return w.hdr }
func (w *c19Writer) Write(b []byte) (int, error) {
	if len(w.codes) == 0 {
		w.codes = append(w.codes, 200)
	}
	return w.body.Write(b)
}
func (w *c19Writer) WriteHeader(c int) { w.codes = append(w.codes, c) }

type c19ErrReader struct{}

func (c19ErrReader) Read(p []byte) (int, error) { return 0, errors.New("connection reset") }

type c19Case struct {
	P4     bool    `json:"p4"`
	Slice  uint8   `json:"slice"`
	TC     uint8   `json:"tc"`
	Method string  `json:"method"`
	Body   string  `json:"body"`
	Doc    *c19Doc `json:"doc,omitempty"`
	ErrRd  bool    `json:"errreader,omitempty"`
	Prev   *c19Doc `json:"prev,omitempty"` // a first, well-formed POST on the same instance
}

type c19Env struct {
	in  *vInst
	h   *ConfigHandler
	res *vResult
}

func newC19Env(res *vResult, p4 bool, slice, tc uint8) *c19Env {
	cfg := vCfg{NConns: 1, P4: p4}
	if p4 {
		cfg.P4Conf = &vP4Cfg{SliceID: slice, DefaultTC: tc}
	}
	in := newVInst(cfg)
	return &c19Env{in: in, h: &ConfigHandler{upf: in.u}, res: res}
}

func (e *c19Env) ncmd() int {
	if e.in.fb != nil {
		return e.in.fb.ncommands()
	}
	return e.in.p4.nwrites()
}

func (e *c19Env) serve(cs c19Case) *c19Writer {
	var rd = strings.NewReader(cs.Body)
	req := httptest.NewRequest(cs.Method, "/v1/config/network-slices", rd)
	if cs.ErrRd {
		req.Body = struct {
			c19ErrReader
			nopCloser
		}{}
		if cs.Body != "" {
			// the transfer fails after cs.Body has arrived (e.g. a shorter body than the announced Content-Length)
			req.Body = struct {
				io.Reader
				nopCloser
			}{Reader: io.MultiReader(strings.NewReader(cs.Body), c19ErrReader{})}
		}
	}
	w := &c19Writer{hdr: http.Header{}}
	fr, msg := vCatch(func() { e.h.ServeHTTP(w, req) })
	if fr != "" {
		e.res.finding("c19:panic:"+fr, msg, cs)
	}
	return w
}

type nopCloser struct{}

func (nopCloser) Close() error { return nil }

// check executes one case (after the optional first POST) and evaluates the oracle.
func (e *c19Env) check(cs c19Case) {
	res := e.res
	res.journal(cs)
	res.Evaluations++
	if cs.Prev != nil {
		e.serve(c19Case{Method: "POST", Body: cs.Prev.body()})
	}
	n0 := e.ncmd()
	w := e.serve(cs)
	wrote := e.ncmd() - n0
	wellFormed := cs.Doc != nil && !cs.ErrRd
	cls := func(s string) string {
		m := cs.Method
		if cs.Prev != nil {
			m += "-second"
		}
		return "c19:" + s + ":" + m
	}
	switch {
	case cs.Method != "PUT" && cs.Method != "POST":
		if len(w.codes) != 1 || w.codes[0] != http.StatusMethodNotAllowed {
			res.finding(cls("status-method"), fmt.Sprintf("%s answered with %v, expected a single 405", cs.Method, w.codes), cs)
		}
		if wrote != 0 {
			res.finding(cls("method-programs-datapath"), fmt.Sprintf("%s issued %d datapath command(s)", cs.Method, wrote), cs)
		}
	case !wellFormed:
		if len(w.codes) != 1 || w.codes[0] < 400 || w.codes[0] > 499 {
			res.finding(cls("status-malformed"), fmt.Sprintf("unreadable/malformed body answered with %v, expected a single 4xx (body %q)", w.codes, cs.Body), cs)
		}
		if wrote != 0 {
			res.finding(cls("malformed-programs-datapath"), fmt.Sprintf("unreadable/malformed body issued %d datapath command(s) (body %q)", wrote, cs.Body), cs)
		}
	default:
		if len(w.codes) != 1 || w.codes[0] != http.StatusCreated {
			res.finding(cls("status-wellformed"), fmt.Sprintf("well-formed document answered with %v, expected a single 201", w.codes), cs)
		}
		e.checkProgrammed(cs, cls)
		res.Distinct++
	}
}

func (e *c19Env) checkProgrammed(cs c19Case, cls func(string) string) {
	res, d := e.res, *cs.Doc
	ul, ulOK := c19Convert(d.UL, d)
	dl, dlOK := c19Convert(d.DL, d)
	if e.in.fb != nil {
		var ue, de *fbQER
		for _, q := range e.in.fb.qosList("sliceMeter") {
			if len(q.Fields) == 2 && q.Fields[0] == farForwardU && q.Fields[1] == 0 {
				ue = q
			}
			if len(q.Fields) == 2 && q.Fields[0] == farForwardD && q.Fields[1] == 1 {
				de = q
			}
		}
		chk := func(dir string, q *fbQER, bps uint64, ok bool, burst uint64) {
			if !ok {
				return
			}
			if q == nil {
				res.finding(cls("not-programmed-"+dir), "no sliceMeter entry for the "+dir+" direction", cs)
				return
			}
			wantB := burst
			if wantB == 0 {
				wantB = DefaultBurstSize
			}
			if q.Gate != sliceMeterGateMeter || q.Pir != bps/8 || q.Pbs != wantB {
				res.finding(cls("value-"+dir), fmt.Sprintf("%s slice meter: gate %d PIR %d PBS %d; posted %d bit/s = %d byte/s, burst %d", dir, q.Gate, q.Pir, q.Pbs, bps, bps/8, wantB), cs)
			}
		}
		chk("uplink", ue, ul, ulOK, d.ULB)
		chk("downlink", de, dl, dlOK, d.DLB)
		// a direction whose posted rate is 0 (nothing is prescribed for it) must at least not be metered with the OTHER
		// direction's rate: each direction is programmed with its own MBR
		leak := func(dir string, q *fbQER, own uint64, other uint64, otherOK bool) {
			if own == 0 && otherOK && other/8 > 0 && q != nil && q.Gate == sliceMeterGateMeter && q.Pir == other/8 {
				res.finding(cls("zero-rate-carries-other-direction-"+dir), fmt.Sprintf("%s rate posted as 0, yet the %s slice meter limits to %d byte/s - the other direction's MBR", dir, dir, q.Pir), cs)
			}
		}
		leak("uplink", ue, d.UL, dl, dlOK)
		leak("downlink", de, d.DL, ul, ulOK)
		return
	}
	// UP4: one slice/TC meter cell; the statement's pair (uplink, downlink) meets a single cell, so either direction's
	// (rate, burst) is accepted when both are in the asserted domain
	idx := int64(cs.Slice)<<2 + int64(cs.TC&3)
	cell, ok := e.in.p4.fp.meterCells("slice_tc_meter")[idx]
	if !ulOK || !dlOK || d.ULB > math.MaxInt64 || d.DLB > math.MaxInt64 {
		return
	}
	if !ok {
		res.finding(cls("not-programmed-up4"), fmt.Sprintf("slice_tc_meter[%d] is not configured", idx), cs)
		return
	}
	okUL := cell.Pir == int64(ul) && cell.Pburst == int64(d.ULB)
	okDL := cell.Pir == int64(dl) && cell.Pburst == int64(d.DLB)
	if !okUL && !okDL {
		res.finding(cls("value-up4"), fmt.Sprintf("slice_tc_meter[%d] = PIR %d burst %d; posted uplink %d/%d downlink %d/%d", idx, cell.Pir, cell.Pburst, ul, d.ULB, dl, d.DLB), cs)
	}
	for i := range e.in.p4.fp.meterCells("slice_tc_meter") {
		if i != idx {
			res.finding(cls("wrong-cell-up4"), fmt.Sprintf("slice_tc_meter[%d] configured, index(slice %d, TC %d) = %d", i, cs.Slice, cs.TC, idx), cs)
		}
	}
}

func c19Docs(full bool) []c19Doc {
	var out []c19Doc
	units := []struct {
		u  string
		no bool
		m  uint64
	}{{"bps", false, 1}, {"Kbps", false, 1000}, {"Mbps", false, 1000000}, {"Gbps", false, 1000000000}, {"", true, 1000000}, {"x", false, 1000000}, {"kbps", false, 1000000}}
	bursts := []uint64{0, 1, 625000, 1 << 62, 1 << 63, math.MaxUint64}
	for _, u := range units {
		lim := uint64(math.MaxInt64) / u.m
		rates := []uint64{0, 1, 7, 8, 9, 500, 9223372036854, lim - 1, lim, lim + 1, math.MaxUint64}
		for ri, r := range rates {
			for bi, b := range bursts {
				if !full && (ri+bi)%2 == 1 && ri > 5 {
					continue
				}
				other := rates[(ri+3)%len(rates)]
				out = append(out, c19Doc{Name: "s1", UL: r, DL: other, Unit: u.u, NoUnit: u.no, ULB: b, DLB: bursts[(bi+1)%len(bursts)]})
				out = append(out, c19Doc{Name: "s1", UL: other, DL: r, Unit: u.u, NoUnit: u.no, ULB: bursts[(bi+2)%len(bursts)], DLB: b})
			}
		}
	}
	return out
}

func TestVerifC19(t *testing.T) {
	vQuietLoggers()
	res := vNewResult()
	defer res.write(t)
	res.Rule = "both plug-ins (UP4 with (slice,TC) in {(0,3),(15,0),(7,2)}): 7 methods x {well-formed documents over 7 unit spellings x 11 rates (0,1,7,8,9,500, 9223372036854, floor((2^63-1)/u)-1/+0/+1, 2^64-1) x " +
		"6 bursts (0,1,625000,2^62,2^63,2^64-1) with UL<>DL, every truncation of a valid document, wrong types, empty, unreadable body}; and every ordered pair of 14 representative documents posted " +
		"one after the other on one instance. distinct_nontrivial = well-formed PUT/POST cases whose programmed values were compared"
	res.Assumptions = []string{"BESS slice meter is programmed in byte/s: PIR = converted bit/s / 8 (integer division); burst 0 means the default burst",
		"UP4 has one cell per (slice, TC): the cell may carry either direction's (rate, burst); bursts >= 2^63 cannot be represented in P4Runtime and are not asserted"}
	if rc := vReplayCase(); rc != nil {
		var cs c19Case
		json.Unmarshal(rc, &cs)
		e := newC19Env(res, cs.P4, cs.Slice, cs.TC)
		defer e.in.close()
		e.check(cs)
		return
	}
	type envK struct {
		p4        bool
		slice, tc uint8
	}
	envs := []envK{{false, 0, 0}, {true, 0, 3}, {true, 15, 0}, {true, 7, 2}}
	docs := c19Docs(vEnv.Thorough)
	methods := []string{"POST", "PUT", "GET", "DELETE", "PATCH", "HEAD", "OPTIONS"}
	item := 0
	for _, ek := range envs {
		e := newC19Env(res, ek.p4, ek.slice, ek.tc)
		base := c19Case{P4: ek.p4, Slice: ek.slice, TC: ek.tc}
		for di := range docs {
			item++
			if !vMine(item) {
				continue
			}
			d := docs[di]
			for mi, m := range methods {
				if mi >= 2 && di%9 != 0 {
					continue
				}
				cs := base
				cs.Method, cs.Body, cs.Doc = m, d.body(), &d
				e.check(cs)
			}
		}
		// malformed and unreadable bodies
		valid := docs[3].body()
		var bad []string
		for i := 0; i < len(valid); i++ {
			bad = append(bad, valid[:i])
		}
		bad = append(bad, `{"sliceName":5}`, `{"sliceQos":{"uplinkMbr":"fast"}}`, `{"sliceQos":{"uplinkMbr":-1}}`, `{"sliceQos":{"uplinkMbr":1.5}}`, `{"sliceQos":{"uplinkMbr":18446744073709551616}}`,
			`[]`, `null x`, `{"sliceQos":[]}`, "\x00\x01", `{"sliceName":"a"} trailing`)
		for bi, b := range bad {
			item++
			if !vMine(item) {
				continue
			}
			for _, m := range methods[:3] {
				cs := base
				cs.Method, cs.Body = m, b
				e.check(cs)
				_ = bi
			}
		}
		if vMine(item) {
			for _, m := range methods {
				cs := base
				cs.Method, cs.ErrRd = m, true
				e.check(cs)
			}
			// a complete, valid document and then the transfer fails; a complete document followed by something else
			for _, m := range methods[:3] {
				for i := 0; i < len(docs); i += len(docs)/8 + 1 {
					cs := base
					cs.Method, cs.ErrRd, cs.Body = m, true, docs[i].body()
					e.check(cs)
					for _, tail := range []string{"}", "]", " }", "\n]", ",", "{}", " null", "1", `"x"`, "}}", ":", docs[i].body()} {
						cs := base
						cs.Method, cs.Body = m, docs[i].body()+tail
						e.check(cs)
					}
				}
			}
		}
		e.in.close()
		// ordered pairs on fresh instances
		rep := []c19Doc{}
		for i := 0; i < len(docs) && len(rep) < 14; i += len(docs)/14 + 1 {
			rep = append(rep, docs[i])
		}
		rep = append(rep, c19Doc{Name: "s1", UL: 100, DL: 200, Unit: "Mbps", ULB: 1000, DLB: 2000}, c19Doc{Name: "s1", UL: 100, DL: 200, Unit: "Mbps", ULB: 3000, DLB: 4000},
			c19Doc{Name: "s2", UL: 100, DL: 200, Unit: "Mbps", ULB: 3000, DLB: 4000}, c19Doc{Name: "s1", UL: 200, DL: 100, Unit: "Kbps", ULB: 3000, DLB: 4000})
		for ai := range rep {
			for bi := range rep {
				item++
				if !vMine(item) {
					continue
				}
				e2 := newC19Env(res, ek.p4, ek.slice, ek.tc)
				cs := base
				a, b := rep[ai], rep[bi]
				cs.Method, cs.Body, cs.Doc, cs.Prev = "PUT", b.body(), &b, &a
				e2.check(cs)
				e2.in.close()
			}
		}
	}
	res.sample(c19Case{P4: false, Method: "POST", Body: docs[3].body()})
	res.sample(c19Case{P4: true, Slice: 15, TC: 0, Method: "PUT", Body: `{"sliceName":"s1","sliceQos":{"uplinkMbr":9223`})
}
