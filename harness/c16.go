//go:build verif

// C16 - every P4Runtime write is valid for the shipped pipeline. The validator sits inside the fake switch, so every
// update of every exploration is checked; this check drives (a) the C04 alphabet BFS with the validator as oracle and
// (b) a value lattice of single establishments and slice configurations per (slice id, traffic class) configuration.
// The constants/generator sub-claim is decided by the orchestrator (regeneration + byte comparison).
package pfcpiface

import (
	"encoding/json"
	"fmt"
	"net/http"
	"net/http/httptest"
	"strings"
	"testing"

	"github.com/wmnsk/go-pfcp/ie"
)

type c16Case struct {
	Cfg  vCfg     `json:"cfg"`
	Est  *sessReq `json:"est,omitempty"`
	Rest string   `json:"rest,omitempty"`
}

func c16Lattice(res *vResult, cfg vCfg, only *c16Case) {
	var in *vInst
	var sys *sessSys
	steps, runs := 0, 0
	fresh := func() {
		if in != nil {
			steps += sys.steps
			in.close()
		}
		in = newVInst(cfg)
		sys = &sessSys{ex: &seqExplorer{res: res, scenario: cfg}, res: res, in: in, m: newRefAgent(1)}
		sys.exec(&sessReq{sReq: sReq{Kind: kAssoc, Conn: 0}})
	}
	fresh()
	defer func() { in.close() }()
	check := func(cs c16Case, label string) {
		for _, v := range in.p4.fp.takeInvalid() {
			cls := strings.SplitN(v, "|", 2)[0]
			res.finding("c16:invalid-write:"+cls, fmt.Sprintf("a P4Runtime update does not conform to the P4Info: %s (%s)", v, label), cs)
		}
	}
	check(c16Case{Cfg: cfg}, "start-up")
	run := func(est sessReq, label string) {
		// a refused establishment keeps its counter cells (recorded finding c05:up4-failed-establishment-not-rolled-back) and
		// the lattice holds many establishments that must be refused: a long-lived instance runs out of cells and then
		// refuses everything. Every 40 cases start from a fresh instance.
		if runs++; runs%40 == 0 {
			check(c16Case{Cfg: cfg}, "before instance renewal")
			fresh()
		}
		cs := c16Case{Cfg: cfg, Est: &est}
		res.journal(cs)
		res.Evaluations++
		ctx := sys.exec(&est)
		if ctx.pframe != "" {
			res.finding("c16:panic:"+ctx.pframe, ctx.pmsg, cs)
			return
		}
		res.outcome(fmt.Sprintf("accepted=%v", ctx.accepted))
		if strings.HasPrefix(label, "rule ids") {
			cause := -1
			if ctx.resp != nil {
				cause = int(ctx.resp.Cause)
			}
			res.outcome(fmt.Sprintf("%s accepted=%v cause=%d nresp=%d", label, ctx.accepted, cause, len(ctx.resps)))
		}
		if ctx.newSess != nil && ctx.newSess.pdr(3) != nil {
			// the same rules arriving through a modification: Update PDR with every precedence of the lattice
			for _, prec := range []uint32{0, 100, 65534, 65535, 65536} {
				up3, up4 := ctx.newSess.pdr(3).sPDR, ctx.newSess.pdr(4).sPDR
				up3.Prec, up4.Prec = prec, prec
				sys.exec(&sessReq{sReq: sReq{Kind: kMod, Conn: 0, UpdatePDR: []sPDR{up3, up4}}, Sess: ctx.newSess.Idx})
				check(cs, label+fmt.Sprintf(" then Update PDR precedence %d", prec))
			}
		}
		if ctx.newSess != nil {
			// exercise MODIFY and DELETE of the same entries
			sys.exec(&sessReq{sReq: sReq{Kind: kMod, Conn: 0, UpdateFAR: []sFAR{{ID: 2, Action: ActionForward, HasFwd: true, HasDst: true, Dst: ie.DstInterfaceAccess, OHCIP: "11.1.1.140", OHCTEID: 0xFFFFFFFF}}}, Sess: ctx.newSess.Idx})
			sys.exec(&sessReq{sReq: sReq{Kind: kDel, Conn: 0}, Sess: ctx.newSess.Idx})
		}
		check(cs, label)
		res.Distinct++
		res.States++
	}
	defer func() { res.Transitions += int64(steps + sys.steps); res.Traces += int64(steps + sys.steps) }()
	if only != nil {
		if only.Est != nil {
			run(*only.Est, "replay")
		}
		return
	}
	mk := func(prec uint32, ue string, teid uint32, sdf string, qfi uint8, gnb string) sessReq {
		p, f, q := rsBasic(ue, teid, gnb)
		q[0].QFI = qfi
		if sdf != "" {
			sp := sdfPDRs(3, ue, teid, prec, sdf, 1, 2, []uint32{1})
			p = append(p, sp...)
		} else {
			p[0].Prec, p[1].Prec = prec, prec
		}
		f[1].OHCTEID = teid
		return sessReq{sReq: sReq{Kind: kEst, Conn: 0, CPSEID: 1, CreatePDR: p, CreateFAR: f, CreateQER: q}}
	}
	precs := []uint32{0, 1, 100, 65534, 65535, 65536}
	ports := []string{"", " 0", " 1", " 65535", " 1-65535", " 0-65534", " 1000-1003", " 0-65535"}
	protos := []string{"ip", "tcp", "17", "1", "254"}
	n := 0
	for plen := 0; plen <= 32; plen++ {
		for pi, port := range ports {
			for _, prec := range precs {
				proto := protos[(plen+pi)%len(protos)]
				addr := []string{"255.255.255.255", "10.1.2.3", "128.0.0.0", "0.0.0.0"}[(plen+pi)%4]
				sdf := fmt.Sprintf("permit out %s from %s/%d%s to assigned", proto, addr, plen, port)
				run(mk(prec, "16.0.0.1", 0x100, sdf, 9, "11.1.1.129"), sdf)
				n++
			}
		}
	}
	for qfi := 0; qfi < 64; qfi++ {
		run(mk(100, "16.0.0.1", 0x100, "", uint8(qfi), "11.1.1.129"), fmt.Sprint("qfi ", qfi))
	}
	// gate status x FAR action: a closed gate turns the entry into a drop whatever the FAR says
	for gates := 0; gates < 4; gates++ {
		for _, act := range []uint8{ActionForward, ActionDrop, ActionBuffer | ActionNotify} {
			r := mk(100, "16.0.0.1", 0x100, "permit out udp from 10.1.0.0/16 80 to assigned", 9, "11.1.1.129")
			r.CreateQER[0].GateUL, r.CreateQER[0].GateDL = uint8(gates&1), uint8(gates>>1)
			if act != ActionForward {
				r.CreateFAR[0] = sFAR{ID: r.CreateFAR[0].ID, Action: act}
				r.CreateFAR[1] = sFAR{ID: r.CreateFAR[1].ID, Action: act}
			}
			run(r, fmt.Sprintf("gates ul=%d dl=%d action %d", gates&1, gates>>1, act))
		}
	}
	for _, prec := range precs {
		for _, ue := range []string{"255.255.255.255", "0.0.0.1", "16.255.255.255"} {
			for _, teid := range []uint32{1, 0xFFFFFFFF} {
				for _, gnb := range []string{"255.255.255.255", "0.0.0.1"} {
					run(mk(prec, ue, teid, "", 63, gnb), "extremes")
				}
			}
		}
	}
	// rule identifiers at the edges of their 16/32-bit ranges (an identifier must never be used as an array index)
	for _, ids := range [][3]uint32{{1023, 1024, 1025}, {2001, 2002, 2003}, {65534, 65535, 0xFFFFFFFF}, {0xFFFF, 1, 0x7FFFFFFF}} {
		r := mk(100, "16.0.0.1", 0x100, "", 9, "11.1.1.129")
		r.CreatePDR[0].ID, r.CreatePDR[1].ID = uint16(ids[0]), uint16(ids[1])
		r.CreatePDR[0].FAR, r.CreatePDR[1].FAR = ids[2], ids[2]-1
		r.CreateFAR[0].ID, r.CreateFAR[1].ID = ids[2], ids[2]-1
		r.CreateQER[0].ID = ids[2]
		r.CreatePDR[0].QERs, r.CreatePDR[1].QERs = []uint32{ids[2]}, []uint32{ids[2]}
		run(r, fmt.Sprint("rule ids ", ids))
	}
	// slice meter through the REST handler
	h := &ConfigHandler{upf: in.u}
	for _, body := range []string{
		`{"sliceName":"s","sliceQos":{"uplinkMbr":1,"downlinkMbr":2,"bitrateUnit":"bps","uplinkBurstSize":1,"downlinkBurstSize":2}}`,
		`{"sliceName":"s","sliceQos":{"uplinkMbr":9223372036854,"downlinkMbr":1,"bitrateUnit":"Mbps","uplinkBurstSize":18446744073709551615,"downlinkBurstSize":0}}`,
	} {
		rec := httptest.NewRecorder()
		vCatch(func() {
			h.ServeHTTP(rec, httptest.NewRequest(http.MethodPost, "/v1/config/network-slices", strings.NewReader(body)))
		})
		check(c16Case{Cfg: cfg, Rest: body}, "slice configuration")
		res.Evaluations++
	}
}

func TestVerifC16(t *testing.T) {
	vQuietLoggers()
	res := vNewResult()
	defer res.write(t)
	res.Rule = "(a) the BFS of C04's alphabet (depth 4) with the fake switch's P4Info validator as oracle; (b) per configuration slice id x default TC (quick: slices {0,1,15} x all 4 TCs; thorough: all 16 x 4): " +
		"establishment + Update FAR + deletion for every prefix length 0..32 x 8 port forms x precedence {0,1,100,65534,65535,65536} with protocols/addresses rotating, every QFI 0..63, " +
		"address/TEID extremes, slice meter via REST; every update validated: table exists, field in table, match kind, width, LPM length, range order, action allowed, exact parameters, " +
		"priority non-zero iff ternary/range fields, meter/counter index in range; (c) constants: generator re-run and byte-compared (orchestrator). distinct_nontrivial = lattice cases + BFS states"
	res.Assumptions = []string{"the validator checks the conditions the statement lists (plus: every exact field present, no field twice, no empty update)",
		"generator determinism is decided by repetition across processes (Go randomises map iteration per process), not by enumeration"}
	if rc := vReplayCase(); rc != nil {
		var probe struct {
			Scenario json.RawMessage `json:"scenario"`
		}
		json.Unmarshal(rc, &probe)
		if probe.Scenario != nil {
			var c seqCase
			json.Unmarshal(rc, &c)
			var sc c04Scenario
			json.Unmarshal(c.Scenario, &sc)
			ex := &seqExplorer{res: res, scenario: sc}
			ex.mk = func() seqSys { return newSessSys(ex, res, sc.Cfg, c04Alphabet, c16Oracle) }
			ex.replay(c)
			return
		}
		var cs c16Case
		json.Unmarshal(rc, &cs)
		c16Lattice(res, cs.Cfg, &cs)
		return
	}
	item := 0
	slices := []uint8{0, 1, 15}
	if vEnv.Thorough {
		slices = nil
		for s := 0; s < 16; s++ {
			slices = append(slices, uint8(s))
		}
	}
	for _, sl := range slices {
		for tc := uint8(0); tc < 4; tc++ {
			item++
			if vMine(item) {
				c16Lattice(res, vCfg{P4: true, NConns: 1, P4Conf: &vP4Cfg{SliceID: sl, DefaultTC: tc, QFIToTC: map[uint8]uint8{9: (tc + 1) % 4, 63: 3}}}, nil)
			}
		}
	}
	// vacuity guard: the lattice must mostly consist of establishments the agent accepts (a long-lived instance once ran
	// out of counter cells and silently refused five cases in six)
	if a, r := res.Outcomes["accepted=true"], res.Outcomes["accepted=false"]; a+r > 0 && a < r {
		panic(fmt.Sprintf("VERIF-INFRA: C16 lattice is vacuous: %d establishments accepted, %d refused", a, r))
	}
	for i, sc := range c04Scenarios() {
		item++
		if !vMine(item) || (i%4 != 1 && !vEnv.Thorough) {
			continue
		}
		sc := sc
		ex := &seqExplorer{res: res, scenario: sc, depth: 4}
		ex.mk = func() seqSys { return newSessSys(ex, res, sc.Cfg, c04Alphabet, c16Oracle) }
		ex.explore(nil)
		res.Distinct += ex.stats.States
	}
	res.sample(map[string]any{"cfg": "slice 15, default TC 3", "establishment": "permit out tcp from 10.1.2.3/31 1-65535 to assigned, precedence 65535, then Update FAR, then deletion"})
}
