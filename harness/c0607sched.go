//go:build verif && verifinstr

// Concurrent parts of C06 (UE IP pool) and C07 (TEID generator) on the scheduler engine: 2-3 threads x 1-2 operations on
// forced collisions; ALL interleavings at lock granularity (the spaces are tiny, no deviation bound); each execution's
// call/return history is checked for linearizability against the reference model - with porcupine and, as a cross-check of
// the checker, by brute force over all orders.
package pfcpiface

import (
	"encoding/json"
	"fmt"
	"os"
	"sort"
	"strings"
	"testing"

	"github.com/anishathalye/porcupine"
	"github.com/omec-project/upf-epc/pfcpiface/internal/verif/vsched"
)

type poolOp struct {
	Kind string `json:"kind"` // alloc / release
	S    uint64 `json:"s"`
}

type poolOut struct {
	IP  string
	Err bool
}

type poolScenario struct {
	Name    string     `json:"name"`
	Pre     []poolOp   `json:"pre"`     // sequential prologue
	Threads [][]poolOp `json:"threads"` // concurrent part
}

func poolScenarios() []poolScenario {
	A, R := "alloc", "release"
	return []poolScenario{
		{"alloc-alloc-last-address", []poolOp{{A, 1}}, [][]poolOp{{{A, 2}}, {{A, 3}}}},
		{"same-session-twice", nil, [][]poolOp{{{A, 1}}, {{A, 1}}}},
		{"same-session-twice-then-release", nil, [][]poolOp{{{A, 1}, {R, 1}}, {{A, 1}}}},
		{"release-vs-alloc", []poolOp{{A, 1}, {A, 2}}, [][]poolOp{{{R, 1}}, {{A, 3}}}},
		{"lookup-vs-release", []poolOp{{A, 1}}, [][]poolOp{{{A, 1}}, {{R, 1}}}},
		{"three-threads", []poolOp{{A, 1}}, [][]poolOp{{{A, 2}, {R, 2}}, {{A, 3}}, {{R, 1}, {A, 1}}}},
		{"three-same-session", nil, [][]poolOp{{{A, 1}}, {{A, 1}}, {{A, 1}, {R, 1}}}},
	}
}

type histOp struct {
	Client    int
	In        poolOp
	Out       poolOut
	Call, Ret int64
}

// poolStep is the reference step: is output `out` legal for `in` in state `held` (session -> address), and the next state.
func poolStep(held map[uint64]string, usable map[string]bool, in poolOp, out poolOut) (bool, map[uint64]string) {
	next := map[uint64]string{}
	for k, v := range held {
		next[k] = v
	}
	switch in.Kind {
	case "alloc":
		if had, ok := held[in.S]; ok {
			return !out.Err && out.IP == had, next
		}
		if out.Err {
			return len(held) == len(usable), next
		}
		if !usable[out.IP] {
			return false, next
		}
		for _, h := range held {
			if h == out.IP {
				return false, next
			}
		}
		next[in.S] = out.IP
		return true, next
	case "release":
		_, ok := held[in.S]
		if ok {
			delete(next, in.S)
			return !out.Err, next
		}
		return out.Err, next
	}
	return false, next
}

func heldKey(h map[uint64]string) string {
	var ks []string
	for k, v := range h {
		ks = append(ks, fmt.Sprintf("%d=%s", k, v))
	}
	sort.Strings(ks)
	return strings.Join(ks, ",")
}

// bruteLinearizable searches every total order that respects real-time order (Ret_i < Call_j => i before j).
func bruteLinearizable(h []histOp, init map[uint64]string, usable map[string]bool) bool {
	n := len(h)
	used := make([]bool, n)
	var rec func(done int, held map[uint64]string) bool
	rec = func(done int, held map[uint64]string) bool {
		if done == n {
			return true
		}
		for i := 0; i < n; i++ {
			if used[i] {
				continue
			}
			ok := true
			for j := 0; j < n; j++ {
				if !used[j] && j != i && h[j].Ret < h[i].Call {
					ok = false // j returned before i was called, so j must come first
				}
			}
			if !ok {
				continue
			}
			legal, next := poolStep(held, usable, h[i].In, h[i].Out)
			if !legal {
				continue
			}
			used[i] = true
			if rec(done+1, next) {
				return true
			}
			used[i] = false
		}
		return false
	}
	return rec(0, init)
}

func porcupineLinearizable(h []histOp, init map[uint64]string, usable map[string]bool) bool {
	model := porcupine.Model{
		Init: func() interface{} { return heldKey(init) },
		Step: func(state, input, output interface{}) (bool, interface{}) {
			held := map[uint64]string{}
			for _, kv := range strings.Split(state.(string), ",") {
				if kv != "" {
					var k uint64
					var v string
					fmt.Sscanf(strings.Replace(kv, "=", " ", 1), "%d %s", &k, &v)
					held[k] = v
				}
			}
			ok, next := poolStep(held, usable, input.(poolOp), output.(poolOut))
			return ok, heldKey(next)
		},
		Equal: func(a, b interface{}) bool { return a.(string) == b.(string) },
	}
	var ops []porcupine.Operation
	for _, o := range h {
		ops = append(ops, porcupine.Operation{ClientId: o.Client, Input: o.In, Call: o.Call, Output: o.Out, Return: o.Ret})
	}
	return porcupine.CheckOperations(model, ops)
}

func poolRun(sc poolScenario, prefix []int, sigs []string) (*vsched.Sched, schedVerdict) {
	s := vsched.New(prefix, 100000)
	s.PrefixSigs = sigs
	var hist []histOp
	var clock int64
	pool, err := NewIPPool("10.250.0.0/30")
	if err != nil {
		panic("VERIF-INFRA: " + err.Error())
	}
	usable := map[string]bool{"10.250.0.1": true, "10.250.0.2": true}
	init := map[uint64]string{}
	do := func(client int, op poolOp) histOp {
		h := histOp{Client: client, In: op}
		clock++
		h.Call = clock
		switch op.Kind {
		case "alloc":
			ip, e := pool.LookupOrAllocIP(op.S)
			h.Out = poolOut{Err: e != nil}
			if e == nil {
				h.Out.IP = ip.String()
			}
		case "release":
			h.Out = poolOut{Err: pool.DeallocIP(op.S) != nil}
		}
		clock++
		h.Ret = clock
		return h
	}
	for _, op := range sc.Pre {
		h := do(0, op)
		_, init = poolStep(init, usable, h.In, h.Out)
	}
	conserved := true
	s.Run(func() {
		s.Explore = true
		left := len(sc.Threads)
		for ti, ops := range sc.Threads {
			ti, ops := ti, ops
			vsched.Go("harness.client", func() {
				for _, op := range ops {
					h := do(ti, op)
					hist = append(hist, h)
				}
				left--
			})
		}
		vsched.Cond("join", func() bool { return left == 0 })
		conserved = len(pool.freePool)+len(pool.inventory) == len(usable)
	})
	v := schedVerdict{}
	var outs []string
	for _, h := range hist {
		outs = append(outs, fmt.Sprintf("%d:%s%d=%s/%v", h.Client, h.In.Kind[:1], h.In.S, h.Out.IP, h.Out.Err))
	}
	sort.Strings(outs)
	v.Outcome = strings.Join(outs, " ")
	switch {
	case len(s.Panics) > 0:
		v.Class, v.Desc = "panic", strings.SplitN(s.Panics[0], "\n", 2)[0]
	case s.Deadlock:
		v.Class, v.Desc = "deadlock", "pool operations block each other"
	default:
		b, p := bruteLinearizable(hist, init, usable), porcupineLinearizable(hist, init, usable)
		if b != p {
			panic(fmt.Sprintf("VERIF-INFRA: linearizability checkers disagree (brute force %v, porcupine %v) on %v", b, p, outs))
		}
		if !b {
			v.Class, v.Desc = "not-linearizable", "the call/return history has no legal one-at-a-time explanation: "+v.Outcome
		} else if !conserved {
			v.Class, v.Desc = "not-conserved", "free + held != usable addresses after the operations: "+v.Outcome
		}
	}
	return s, v
}

// ---- TEID generator
type teidScenario struct {
	Name    string     `json:"name"`
	Init    c07Init    `json:"init"`
	Threads [][]string `json:"threads"` // "A" allocate, "F" free the TEID this thread allocated last
}

func teidRun(sc teidScenario, prefix []int, sigs []string) (*vsched.Sched, schedVerdict) {
	s := vsched.New(prefix, 100000)
	s.PrefixSigs = sigs
	g := c07Gen(sc.Init)
	live := map[uint32]int{}
	for _, u := range sc.Init.Used {
		live[u+1] = 1
	}
	bad := ""
	s.Run(func() {
		s.Explore = true
		left := len(sc.Threads)
		for _, ops := range sc.Threads {
			ops := ops
			vsched.Go("harness.client", func() {
				var last uint32
				for _, op := range ops {
					if op == "A" {
						id, err := g.Allocate()
						if err != nil {
							bad = "refused"
							continue
						}
						if id == 0 {
							bad = "zero"
						}
						if live[id] > 0 {
							bad = fmt.Sprintf("reused: TEID %#x handed out while live", id)
						}
						live[id]++
						last = id
					} else if last != 0 {
						live[last]--
						g.FreeID(last)
						last = 0
					}
				}
				left--
			})
		}
		vsched.Cond("join", func() bool { return left == 0 })
	})
	v := schedVerdict{Outcome: fmt.Sprint(len(g.usedMap), g.offset)}
	switch {
	case len(s.Panics) > 0:
		v.Class, v.Desc = "panic", strings.SplitN(s.Panics[0], "\n", 2)[0]
	case s.Deadlock:
		v.Class, v.Desc = "deadlock", "generator operations block each other"
	case bad != "":
		v.Class, v.Desc = "teid-"+strings.SplitN(bad, ":", 2)[0], bad
	}
	return s, v
}

func TestVerifC0607Sched(t *testing.T) {
	vQuietLoggers()
	res := vNewResult()
	defer res.write(t)
	res.Rule = "concurrent part: real IPPool (/30) and FTEIDGenerator under the cooperative scheduler, 2-3 threads x 1-2 operations on forced collisions (last address, same session from two threads, release vs allocate, " +
		"cursor at the 32-bit wrap), ALL interleavings at lock granularity; pool histories checked for linearizability against refPool by porcupine and by brute force (the two must agree); TEIDs: unique among live ones at every step"
	prop := strings.ToLower(os.Getenv("VERIF_PROP"))
	if prop == "" {
		prop = "c06"
	}
	if rc := vReplayCase(); rc != nil {
		var c schedCase
		json.Unmarshal(rc, &c)
		b, _ := json.Marshal(c.Scenario)
		var probe map[string]any
		json.Unmarshal(b, &probe)
		if _, isTeid := probe["init"]; isTeid {
			var sc teidScenario
			json.Unmarshal(b, &sc)
			if _, v := teidRun(sc, c.Choices, c.Sigs); v.Class != "" {
				res.finding("c07:"+v.Class+":"+sc.Name, v.Desc, c)
			}
		} else {
			var sc poolScenario
			json.Unmarshal(b, &sc)
			if _, v := poolRun(sc, c.Choices, c.Sigs); v.Class != "" {
				res.finding("c06:"+v.Class+":"+sc.Name, v.Desc, c)
			}
		}
		res.Evaluations++
		return
	}
	const unbounded = 1 << 20
	if prop == "c06" {
		for i, sc := range poolScenarios() {
			if !vMine(i) {
				continue
			}
			sc := sc
			st := schedExplore(res, "c06", sc, sc.Name, unbounded, 2000000, func(p []int, sg []string) (*vsched.Sched, schedVerdict) { return poolRun(sc, p, sg) })
			res.Distinct += st.Executions
			res.Extra["executions_"+sc.Name] = st.Executions
		}
		res.sample(poolScenarios()[5])
	} else {
		m := uint32(4294967295)
		tscs := []teidScenario{
			{"two-allocators", c07Init{0, nil}, [][]string{{"A", "A"}, {"A", "A"}}},
			{"alloc-free-vs-alloc-at-wrap", c07Init{m - 2, []uint32{m - 1}}, [][]string{{"A", "F", "A"}, {"A", "A"}}},
			{"three-threads-across-wrap", c07Init{m - 2, []uint32{0, 1}}, [][]string{{"A", "F"}, {"A"}, {"A", "A"}}},
		}
		for i, sc := range tscs {
			if !vMine(i) {
				continue
			}
			sc := sc
			st := schedExplore(res, "c07", sc, sc.Name, unbounded, 2000000, func(p []int, sg []string) (*vsched.Sched, schedVerdict) { return teidRun(sc, p, sg) })
			res.Distinct += st.Executions
			res.Extra["executions_"+sc.Name] = st.Executions
		}
		res.sample(tscs[1])
	}
}
