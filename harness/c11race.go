//go:build verif && !verifinstr

// Free-running race-detector complement of C11 (and of the pool / TEID parts of C06, C07): the same scenario bodies on real
// goroutines under -race, many repetitions. This pass SAMPLES schedules; it never decides that a property holds, it only
// adds failures (a race report is a violation candidate). The orchestrator reads the detector's reports from the log.
package pfcpiface

import (
	"sync"
	"testing"
)

func TestVerifC11Race(t *testing.T) {
	vQuietLoggers()
	res := vNewResult()
	defer res.write(t)
	res.Rule = "free-running -race complement: the C11 scenario bodies on real goroutines, repeated; SAMPLING - declared as such, never the reason a property is declared held"
	reps := 150
	if vEnv.Thorough {
		reps = 1500
	}
	fbFreshReadyConn()
	for _, sc := range c11Scenarios() {
		for r := 0; r < reps; r++ {
			in := newVInst(c11Cfg(sc))
			for i := range in.conns {
				in.inject(i, (&sReq{Kind: kAssoc, Conn: i, Seq: 1}).build(in.conns[i]).marshal())
			}
			out := c11Result{Causes: make([]string, len(sc.Streams))}
			ups := c11Prologue(in, sc, func(a int, b []byte) [][]byte { r, _, _ := in.inject(a, b); return r })
			var wg sync.WaitGroup
			for a := range sc.Streams {
				wg.Add(1)
				go func(a int) {
					defer wg.Done()
					var mine c11Result
					mine.Causes = make([]string, len(sc.Streams))
					c11Stream(in, sc, a, &mine, ups)
				}(a)
			}
			wg.Wait()
			_ = out
			in.close()
			res.Evaluations++
			res.Distinct++
		}
	}
	res.Extra["race_pass_runs"] = res.Evaluations
}
