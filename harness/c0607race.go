//go:build verif && !verifinstr

// Free-running -race complement of the concurrent parts of C06 (UE IP pool) and C07 (TEID generator): the same kinds of
// bodies on real goroutines, repeated. SAMPLING - declared as such: a cooperative scheduler's hand-offs are
// happens-before edges, so unsynchronised accesses (a removed lock) are invisible to the exploration; here every detector
// report is a finding (parsed by the orchestrator), and the exclusivity invariant is checked on the observed results.
package pfcpiface

import (
	"fmt"
	"os"
	"sync"
	"testing"
)

func TestVerifC0607Race(t *testing.T) {
	vQuietLoggers()
	res := vNewResult()
	defer res.write(t)
	res.Rule = "free-running -race complement: goroutines hammering one real IPPool / FTEIDGenerator with allocate, look-up and release on colliding sessions; SAMPLING - never the reason a property is declared held"
	reps := 300
	if vEnv.Thorough {
		reps = 3000
	}
	prop := os.Getenv("VERIF_PROP")
	if prop != "C07" {
		for r := 0; r < reps; r++ {
			pool, err := NewIPPool("10.250.0.0/29")
			if err != nil {
				panic("VERIF-INFRA: " + err.Error())
			}
			var wg sync.WaitGroup
			var mu sync.Mutex
			holder := map[string]uint64{} // address -> session, as observed at allocation time
			for g := 0; g < 4; g++ {
				wg.Add(1)
				go func(g int) {
					defer wg.Done()
					for k := 0; k < 6; k++ {
						s := uint64(1 + (g+k)%5)
						own := uint64(100 + g) // a session only this goroutine uses: exclusivity can be asserted for it
						ip, err := pool.LookupOrAllocIP(own)
						if err == nil {
							mu.Lock()
							if o, ok := holder[ip.String()]; ok && o != own {
								res.finding("c06:race-pass:address-shared", fmt.Sprintf("address %s handed to session %d while session %d holds it (free-running pass)", ip, own, o), nil)
							}
							holder[ip.String()] = own
							mu.Unlock()
						}
						pool.LookupOrAllocIP(s) // colliding sessions shared by all goroutines
						if k%2 == 1 {
							pool.DeallocIP(s)
						}
						if err == nil {
							mu.Lock()
							delete(holder, ip.String())
							mu.Unlock()
							pool.DeallocIP(own)
						}
					}
				}(g)
			}
			wg.Wait()
			res.Evaluations++
			res.Distinct++
		}
	}
	if prop != "C06" {
		for r := 0; r < reps; r++ {
			g := NewFTEIDGenerator()
			var wg sync.WaitGroup
			var mu sync.Mutex
			live := map[uint32]int{}
			for th := 0; th < 4; th++ {
				wg.Add(1)
				go func(th int) {
					defer wg.Done()
					for k := 0; k < 8; k++ {
						id, err := g.Allocate()
						if err != nil {
							continue
						}
						mu.Lock()
						if o, ok := live[id]; ok {
							res.finding("c07:race-pass:teid-shared", fmt.Sprintf("TEID %#x handed to thread %d while thread %d holds it (free-running pass)", id, th, o), nil)
						}
						live[id] = th
						mu.Unlock()
						g.IsAllocated(id)
						if k%2 == 0 {
							mu.Lock()
							delete(live, id)
							mu.Unlock()
							g.FreeID(id)
						}
					}
				}(th)
			}
			wg.Wait()
			res.Evaluations++
			res.Distinct++
		}
	}
	res.Extra["race_pass_runs"] = res.Evaluations
}
