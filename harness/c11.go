//go:build verif && verifinstr

// C11 - concurrent associations do not interfere. Engine SCHED: one thread per association feeds its PFCPConn through
// the real HandlePFCPMsg; every lock, store operation and datapath RPC is a scheduling point; all schedules up to a
// deviation bound; oracle = the outcome must be that of some one-at-a-time order (computed by running the implementation
// itself sequentially).
package pfcpiface

import (
	"encoding/json"
	"fmt"
	"os"
	"strings"
	"testing"

	"github.com/omec-project/upf-epc/pfcpiface/internal/verif/vsched"
)

func c11Run(sc c11Scenario, serial map[string]string, prefix []int, sigs []string) (*vsched.Sched, schedVerdict) {
	s := vsched.New(prefix, 200000)
	s.PrefixSigs = sigs
	s.ChargeFreeSwitch = true // a non-canonical switch at a blocking point counts as a deviation too (lock hand-offs are frequent)
	// no timer belongs to the scenario: the only one is the bess plug-in's 1 s join time-out, and a "timer lands first"
	// deviation there is datapath slowness, which is not injected (DESIGN.md section 11)
	s.NoClockDeviation = true
	res := c11Result{Causes: make([]string, len(sc.Streams))}
	var in *vInst
	vYieldHook = vsched.Yield
	defer func() { vYieldHook = nil }()
	fbFreshReadyConn()
	// the instance is assembled outside the scheduler: the BESS plug-in's real SetUpfInfo talks gRPC in real time
	vsched.S = nil
	in = newVInst(c11Cfg(sc))
	s.Run(func() {
		if in.fb != nil {
			in.bs.client = &schedBESSClient{in.fb}
		}
		for i := range in.conns {
			in.inject2(i, (&sReq{Kind: kAssoc, Conn: i, Seq: 1}).build(in.conns[i]).marshal())
		}
		ups := c11Prologue(in, sc, in.inject2)
		s.Explore = true
		left := len(sc.Streams)
		for a := range sc.Streams {
			a := a
			vsched.Go("harness.assoc", func() {
				c11Stream(in, sc, a, &res, ups)
				left--
			})
		}
		vsched.Cond("join", func() bool { return left == 0 })
		s.Explore = false
		res.Final = c11Final(in)
	})
	if in != nil {
		in.close()
	}
	v := schedVerdict{}
	switch {
	case len(s.Panics) > 0:
		first := strings.SplitN(s.Panics[0], "\n", 2)[0]
		v.Class, v.Desc, v.Outcome = "panic:"+vThreadFrame(s.Panics[0]), first, "panic"
	case res.Panic != "":
		v.Class, v.Desc, v.Outcome = "panic:"+strings.SplitN(res.Panic, ":", 2)[0], res.Panic, "panic"
	case s.Deadlock:
		v.Class, v.Desc, v.Outcome = "deadlock", "the association threads block each other", "deadlock"
	case s.Horizon:
		v.Class, v.Desc, v.Outcome = "horizon", "no rest within the step horizon", "horizon"
	default:
		k := res.key()
		v.Outcome = fmt.Sprintf("%x", fnvHash(k))
		if _, ok := serial[k]; !ok {
			v.Class = "not-serializable"
			v.Desc = "responses and final datapath state equal those of no one-at-a-time order of the same requests: " + strings.ReplaceAll(firstDiff(k, serial), "\n", " / ")
			v.Outcome = "BAD " + v.Outcome
		}
	}
	return s, v
}

func fnvHash(s string) uint32 {
	h := uint32(2166136261)
	for i := 0; i < len(s); i++ {
		h = (h ^ uint32(s[i])) * 16777619
	}
	return h
}

// firstDiff shows the lines of the concurrent outcome that the closest serial outcome does not have.
func firstDiff(k string, serial map[string]string) string {
	best, bestN := "", 1<<30
	for sk := range serial {
		have := map[string]bool{}
		for _, l := range strings.Split(sk, "\n") {
			have[l] = true
		}
		var miss []string
		mine := map[string]bool{}
		for _, l := range strings.Split(k, "\n") {
			mine[l] = true
			if !have[l] {
				miss = append(miss, "+ "+l)
			}
		}
		for _, l := range strings.Split(sk, "\n") {
			if !mine[l] {
				miss = append(miss, "- "+l)
			}
		}
		if len(miss) < bestN {
			bestN, best = len(miss), strings.Join(miss, "\n")
		}
	}
	if len(best) > 700 {
		best = best[:700]
	}
	return best
}

// inject2 is inject without the watchdog goroutine (under the scheduler everything runs on managed threads).
func (in *vInst) inject2(conn int, b []byte) [][]byte {
	c := in.conns[conn]
	c.sock.take()
	c.pc.HandlePFCPMsg(b)
	return c.sock.take()
}

func TestVerifC11(t *testing.T) {
	vQuietLoggers()
	res := vNewResult()
	defer res.write(t)
	bound := 1
	maxExec := int64(400000)
	if vEnv.Thorough {
		bound, maxExec = 2, 4000000
	}
	res.Rule = fmt.Sprintf("2 (one scenario: 3) associations, each a thread with a stream of 2-3 requests (establish with CHOOSE F-TEID, UE-IP allocation from a /29, shared gNB and shared application filter; "+
		"Update FAR to another gNB; delete) through the real HandlePFCPMsg on one shared plug-in (UP4 on the fake switch, BESS on the fake BESS); scheduling points at every lock, session-store and pool operation "+
		"and every datapath RPC; all schedules with <= %d deviations (preemptions and non-canonical switches at blocking points); oracle: outcome (causes per request, canonical final datapath + pool state) equals that of some serial order, computed by running the "+
		"implementation sequentially for every order. distinct_nontrivial = executions", bound)
	res.Assumptions = []string{"sequentially consistent interleavings at synchronisation points and datapath RPCs; data races on plain memory (unsynchronised maps) are the free-running -race complement's (TestVerifC11Race)",
		"differential oracle: a defect that shows in every serial order as well is not C11's"}
	scs := c11Scenarios()
	if rc := vReplayCase(); rc != nil {
		var c schedCase
		json.Unmarshal(rc, &c)
		b, _ := json.Marshal(c.Scenario)
		var sc c11Scenario
		json.Unmarshal(b, &sc)
		sr, v := c11Run(sc, c11Serial(sc), c.Choices, c.Sigs)
		if sr.Diverged != "" {
			panic("VERIF-INFRA: the recorded schedule does not fit this tree: " + sr.Diverged)
		}
		if os.Getenv("VERIF_SCHEDLOG") != "" {
			for _, l := range sr.Log {
				fmt.Println("SCHED", l)
			}
			fmt.Println("VERDICT", v.Class, v.Desc, v.Outcome)
		}
		if v.Class != "" {
			res.finding("c11:"+v.Class+":"+sc.Name, v.Desc, c)
		}
		res.Evaluations++
		return
	}
	// every scenario is split over the workers by its first-level alternatives: simple approach - scenario per worker group
	schedShard = func(k int) bool { return vMine(k) } // every worker takes its share of every scenario's subtrees
	for i, sc := range scs {
		if i == len(scs)-1 && !vEnv.Thorough {
			continue
		}
		sc := sc
		serial := c11Serial(sc)
		res.Extra["serial_outcomes_"+sc.Name] = len(serial)
		st := schedExplore(res, "c11", sc, sc.Name, bound+sc.Extra, maxExec, func(p []int, sg []string) (*vsched.Sched, schedVerdict) { return c11Run(sc, serial, p, sg) })
		res.Distinct += st.Executions
		res.addExtra("sum_choice_points", st.Points)
		if st.Truncated {
			res.Extra["truncated_"+sc.Name] = true
		}
	}
	res.sample(map[string]any{"scenario": scs[0]})
	res.Extra["states_are_outcomes"] = true
}
