//go:build verif

// C08 - SDF filters and PFD-backed application IDs mean what they say. Engine ENUM/SEQ on the real handlers + bess plug-in:
// the grammar is expanded completely over stated token sets and every string is sent inline in a Create PDR for both
// directions; every token-level corruption of a stratified subset; every sequence of <= 3 PFD Management requests followed
// by PDRs that name the application. Observed at the fake BESS (match fields of the PDR's entries).
package pfcpiface

import (
	"encoding/json"
	"fmt"
	"os"
	"strings"
	"testing"

	"github.com/wmnsk/go-pfcp/ie"
)

type c08Case struct {
	Desc   string   `json:"desc"`
	Uplink bool     `json:"uplink"`
	UE     string   `json:"ue"`
	App    bool     `json:"app,omitempty"`    // the description is provisioned by PFD Management and the PDR names the application
	PFDSeq []string `json:"pfdseq,omitempty"` // sequence of PFD requests before the PDR (names of c08PFDReqs)
	P4     bool     `json:"p4,omitempty"`     // the description is programmed through the UP4 plug-in (applications table)
	Prev   string   `json:"prev,omitempty"`   // UP4: a second session with this description (another UE) is live at the same time
}

type c08Env struct {
	res *vResult
	sys *sessSys
	n   int
}

func newC08Env(res *vResult) *c08Env {
	cfg := vCfg{NConns: 1}
	ex := &seqExplorer{res: res, scenario: cfg}
	s := newSessSys(ex, res, cfg, func(*sessSys) []sessReq { return nil })
	s.exec(&sessReq{sReq: sReq{Kind: kAssoc, Conn: 0}})
	return &c08Env{res: res, sys: s}
}

// entriesFor establishes a session with one PDR carrying the filter and returns its pdrLookup entries (nil = refused).
func (e *c08Env) entriesFor(cs c08Case, sdf, app string) (entries []*fbPDR, accepted bool, pframe string) {
	e.n++
	src := uint8(ie.SrcInterfaceCore)
	p := sPDR{ID: 1, Prec: 100, Src: src, UEIP: cs.UE, SDF: sdf, App: app, FAR: 1}
	if cs.Uplink {
		p.Src = ie.SrcInterfaceAccess
		p.FTEID = &sFTEID{TEID: 0x100, IP: vN3Addr}
		p.Decap = true
	}
	ctx := e.sys.exec(&sessReq{sReq: sReq{Kind: kEst, Conn: 0, CPSEID: uint64(e.n), CreatePDR: []sPDR{p}, CreateFAR: []sFAR{{ID: 1, Action: ActionDrop}}}})
	if ctx.pframe != "" {
		return nil, false, ctx.pframe + ": " + ctx.pmsg
	}
	if !ctx.accepted || ctx.newSess == nil {
		return nil, false, ""
	}
	for _, x := range e.sys.in.fb.pdrList() {
		if x.FSEID == ctx.newSess.UPSEID {
			entries = append(entries, x)
		}
	}
	e.sys.exec(&sessReq{sReq: sReq{Kind: kDel, Conn: 0}, Sess: ctx.newSess.Idx})
	// this instance lives for hundreds of thousands of cases: the fake's command log is not needed here
	e.sys.in.fb.mu.Lock()
	e.sys.in.fb.log = e.sys.in.fb.log[:0]
	e.sys.in.fb.mu.Unlock()
	return entries, true, ""
}

// c08Compare checks the entries against the box; mode "exact": entries must denote exactly the box; mode "ue-or-refused":
// malformed text - refused, or UE-address-only match.
func c08Compare(entries []*fbPDR, box refBox) string {
	if len(entries) == 0 {
		return "accepted but no pdrLookup entry was installed"
	}
	var prod []portRangeTernaryCartesianProduct
	for _, x := range entries {
		for _, i := range []int{fbSrcIface, fbTunDst, fbTEID, fbSrcIP, fbDstIP, fbProto} {
			if x.Values[i] != box.v[i]&box.m[i] || x.Masks[i] != box.m[i] {
				names := []string{"src_iface", "tunnel_dst", "teid", "src_ip", "dst_ip", "src_port", "dst_port", "proto"}
				return fmt.Sprintf("field %s is %#x/%#x, the description denotes %#x/%#x", names[i], x.Values[i], x.Masks[i], box.v[i]&box.m[i], box.m[i])
			}
		}
		prod = append(prod, portRangeTernaryCartesianProduct{srcPort: uint16(x.Values[fbSrcPort]), srcMask: uint16(x.Masks[fbSrcPort]), dstPort: uint16(x.Values[fbDstPort]), dstMask: uint16(x.Masks[fbDstPort])})
	}
	if v := c17CheckProduct(portRange{box.sLo, box.sHi}, portRange{box.dLo, box.dHi}, prod); v != "" {
		return "ports: " + v
	}
	return ""
}

func (cs c08Case) rPDR(sdf string) *rPDR {
	p := &rPDR{sPDR: sPDR{ID: 1, Src: ie.SrcInterfaceCore, UEIP: cs.UE, SDF: sdf}, UE: vIP4(cs.UE)}
	if cs.Uplink {
		p.Src, p.TEID, p.TunIP = ie.SrcInterfaceAccess, 0x100, vIP4(vN3Addr)
	}
	return p
}

func (e *c08Env) checkInline(cs c08Case) {
	res := e.res
	res.journal(cs)
	res.Evaluations++
	box := pdrBox(cs.rPDR(cs.Desc), nil)
	ueOnly := pdrBox(cs.rPDR(""), nil)
	entries, accepted, pframe := e.entriesFor(cs, cs.Desc, "")
	dir := "downlink"
	if cs.Uplink {
		dir = "uplink"
	}
	rfl, perr := refParseFlow(cs.Desc)
	order := ""
	if perr == nil && rfl.Src.Assigned && !rfl.Dst.Assigned {
		order = ":endpoints-reversed"
	}
	switch {
	case pframe != "":
		res.finding("c08:panic:"+strings.SplitN(pframe, ":", 2)[0], fmt.Sprintf("%q (%s): %s", cs.Desc, dir, pframe), cs)
	case perr != nil && !c08ListedMalformed(cs.Desc):
		// not of the grammar, but not one of the malformations the statement lists either (e.g. an unknown protocol token, stray
		// tokens): crash-freedom only
		res.outcome("malformed-unlisted")
	case perr != nil:
		// structurally malformed: refused, or ignored so that the PDR matches on the UE address only
		res.outcome(fmt.Sprintf("malformed-accepted=%v", accepted))
		if accepted {
			if v := c08Compare(entries, ueOnly); v != "" {
				diag := ""
				if os.Getenv("VERIF_C08_DIAG") != "" {
					e2, a2, _ := e.entriesFor(cs, cs.Desc, "")
					_, perr2 := parseFlowDesc(cs.Desc, cs.UE)
					diag = fmt.Sprintf(" [diag: n=%d total-entries=%d again: accepted=%v entries=%d direct-parse-err=%v assoc=%q gone=%v steps=%d]", e.n, len(e.sys.in.fb.pdrList()), a2, len(e2), perr2, e.sys.m.Assoc[0], e.sys.m.Gone[0], e.sys.steps)
				}
				res.finding("c08:malformed-yields-filter:"+dir, fmt.Sprintf("malformed description %q is neither refused nor ignored: %s%s", cs.Desc, v, diag), cs)
			}
		}
	case !box.strict:
		// outside the envelope in which the statement fixes a meaning: crash-freedom only (asserted above)
		res.outcome("loose:" + box.why)
	default:
		res.outcome("strict")
		res.Distinct++
		if !accepted {
			res.finding("c08:grammar-refused:"+dir, fmt.Sprintf("description %q of the supported grammar was refused", cs.Desc), cs)
		} else if v := c08Compare(entries, box); v != "" {
			res.finding("c08:filter-differs:"+dir+":"+strings.SplitN(v, " ", 3)[1]+order, fmt.Sprintf("%q on a %s PDR: %s", cs.Desc, dir, v), cs)
		}
	}
}

// c08UP4Grammar: the strings of the form the statement fixes a meaning for ("... from <remote> [ports] to assigned"), with two
// more port forms right behind "no ports": 1-65535 and 0-65534 (one port short of everything; the BESS plug-in cannot
// expand ranges that wide and never answers for them in a harness build, so they are UP4's alone)
func c08UP4Grammar() []string {
	var out []string
	remotes := []string{"any", "10.1.2.3", "10.1.2.3/32", "10.1.2.3/31", "10.1.2.0/24", "10.0.0.0/8", "128.0.0.0/1", "0.0.0.0/0"}
	ports := []string{"", " 1-65535", " 0-65534", " 80", " 80-80", " 1000-1003", " 65535", " 0-65535", " 1", " 65530-65535", " 0-5", " 256", " 512-520"}
	protos := []string{"ip", "tcp", "udp", "6", "17", "1", "127", "128", "132", "254", "0", "255"}
	for _, act := range []string{"permit", "deny"} {
		for _, dir := range []string{"out", "in"} {
			for _, pr := range protos {
				for _, r := range remotes {
					for _, po := range ports {
						out = append(out, fmt.Sprintf("%s %s %s from %s%s to assigned", act, dir, pr, r, po))
					}
				}
			}
		}
	}
	return out
}

func c08Grammar(full bool) []string {
	var out []string
	remotes := []string{"any", "10.1.2.3", "10.1.2.3/32", "10.1.2.3/31", "10.1.2.0/24", "10.0.0.0/8", "128.0.0.0/1", "0.0.0.0/0"}
	ports := []string{"", " 80", " 80-80", " 1000-1003", " 65535", " 0-65535", " 1", " 65530-65535", " 0-5", " 256", " 512-520"}
	protos := []string{"ip", "tcp", "udp", "6", "17", "1", "127", "128", "132", "254", "0", "255"}
	for _, act := range []string{"permit", "deny"} {
		for _, dir := range []string{"out", "in"} {
			for _, pr := range protos {
				for _, r := range remotes {
					for _, po := range ports {
						out = append(out, fmt.Sprintf("%s %s %s from %s%s to assigned", act, dir, pr, r, po))
						out = append(out, fmt.Sprintf("%s %s %s from assigned to %s%s", act, dir, pr, r, po))
						if full || (po == " 80" && r == "10.1.2.0/24") {
							// ports on the UE side / on both sides / no assigned side: generated, only crash-freedom asserted
							out = append(out, fmt.Sprintf("%s %s %s from %s%s to assigned 5000", act, dir, pr, r, po))
							out = append(out, fmt.Sprintf("%s %s %s from %s%s to any", act, dir, pr, r, po))
							out = append(out, fmt.Sprintf("%s %s %s from %s%s to 10.9.9.9", act, dir, pr, r, po))
						}
					}
				}
			}
		}
	}
	return out
}

// c08ListedMalformed tells whether the text shows one of the malformations the statement lists: unknown action or direction,
// missing or unparsable address or port tokens, inverted port range (a missing from/to part counts as a missing address).
func c08ListedMalformed(desc string) bool {
	t := strings.Fields(desc)
	if len(t) < 2 {
		return true
	}
	if t[0] != "permit" && t[0] != "deny" {
		return true
	}
	if t[1] != "in" && t[1] != "out" {
		return true
	}
	sawFrom, sawTo := false, false
	for i := 3; i < len(t); i++ { // token 2 is the protocol slot: junk there is not among the listed malformations
		if t[i] != "from" && t[i] != "to" {
			continue
		}
		if t[i] == "from" {
			sawFrom = true
		} else {
			sawTo = true
		}
		if i+1 >= len(t) {
			return true // address missing
		}
		if _, err := refParseEndpoint(t[i+1]); err != nil {
			return true // unparsable address
		}
		if i+2 < len(t) && t[i+2] != "to" && t[i+2] != "from" {
			if _, _, err := refParsePorts(t[i+2]); err != nil {
				return true // unparsable port / inverted range
			}
		}
		i++
	}
	return !sawFrom || !sawTo
}

var c08Junk = []string{"", "x", "-", "1-", "70000", "9-3", "1.2.3", "1.2.3.4/33", "from", "to", "assigned", "2001:db8::1"}

// c08Corruptions: every token-level corruption of one description.
func c08Corruptions(desc string) []string {
	toks := strings.Fields(desc)
	var out []string
	join := func(t []string) string { return strings.Join(t, " ") }
	for i := range toks {
		del := append(append([]string{}, toks[:i]...), toks[i+1:]...)
		out = append(out, join(del))
		dup := append(append(append([]string{}, toks[:i+1]...), toks[i]), toks[i+1:]...)
		out = append(out, join(dup))
		out = append(out, join(toks[:i+1]))
		for _, j := range c08Junk {
			rep := append([]string{}, toks...)
			rep[i] = j
			out = append(out, join(rep))
		}
	}
	return out
}

// ---- PFD management
type c08PFDReq struct {
	Name     string
	Req      sReq
	Accepted bool
	Table    map[string][]string
	// Loose: the table holds structurally malformed descriptions. The statement does not say whether such a request is
	// accepted, nor which of "refused" and "ignored" applies to a rule that meets one: crash-freedom, and an accepted rule's
	// filter is the UE address alone or, verbatim, the first well-formed description of its direction
	Loose bool
}

func c08PFDReqs() []c08PFDReq {
	t1 := map[string][]string{"app1": {"permit out udp from 10.1.0.0/16 80 to assigned", "permit in tcp from 10.2.0.0/16 443 to assigned"}, "app2": {"permit out ip from 10.3.0.0/16 to assigned"}}
	t2 := map[string][]string{"app1": {"permit in 17 from 10.5.5.5 53 to assigned", "permit out tcp from 10.6.0.0/24 to assigned"}}
	// the other direction's description names a protocol and comes first, the PDR direction's says "ip"; an application
	// provisioned for one direction only
	t3 := map[string][]string{"app1": {"permit in tcp from 10.2.0.0/16 443 to assigned", "permit out ip from 10.7.0.0/16 to assigned"}, "app2": {"permit in udp from 10.4.0.0/16 53 to assigned"}}
	// descriptions with ports on the UE side ('assigned') only, the application side open: taken verbatim like any other
	t4 := map[string][]string{"app1": {"permit in ip from any to assigned 5000-5010", "permit out udp from 10.1.0.0/16 to assigned 8080"}, "app2": {"permit out ip from any to assigned 443"}}
	// structurally malformed descriptions (one token, white space only) in front of, and behind, well-formed ones
	t5 := map[string][]string{"app1": {"permit", "permit out ip from 10.7.0.0/16 to assigned", "permit in udp from 10.4.0.0/16 53 to assigned"}, "app2": {"permit in tcp from 10.2.0.0/16 443 to assigned", "  "}}
	mk := func(t map[string][]string) []sPFD {
		var out []sPFD
		for _, a := range []string{"app1", "app2"} {
			if fl, ok := t[a]; ok {
				out = append(out, sPFD{App: a, Flows: fl})
			}
		}
		return out
	}
	return []c08PFDReq{
		{"T1", sReq{Kind: kPFD, PFDs: mk(t1)}, true, t1, false},
		{"T2", sReq{Kind: kPFD, PFDs: mk(t2)}, true, t2, false},
		{"T3", sReq{Kind: kPFD, PFDs: mk(t3)}, true, t3, false},
		{"T4", sReq{Kind: kPFD, PFDs: mk(t4)}, true, t4, false},
		{"T5-malformed", sReq{Kind: kPFD, PFDs: mk(t5)}, true, t5, true},
		{"bad-noflow-app1", sReq{Kind: kPFD, PFDs: []sPFD{{App: "app2", Flows: []string{"permit out ip from 10.9.0.0/16 to assigned"}}, {App: "app1", Bad: "noflow"}}}, false, nil, false},
		{"bad-noflow-app3", sReq{Kind: kPFD, PFDs: []sPFD{{App: "app3", Flows: []string{"permit out ip from 10.9.0.0/16 to assigned"}, Bad: "noflow"}}}, false, nil, false},
		{"bad-noctx-app2", sReq{Kind: kPFD, PFDs: []sPFD{{App: "app1", Flows: []string{"permit out ip from 10.8.0.0/16 to assigned"}}, {App: "app2", Bad: "noctx"}}}, false, nil, false},
		{"empty", sReq{Kind: kPFD}, true, map[string][]string{}, false},
	}
}

func (e *c08Env) checkPFDSeq(seq []c08PFDReq) {
	res := e.res
	var names []string
	loose := false // the table in force came from a request with malformed descriptions
	table := map[string][]string{}
	// a fresh association for every sequence (the PFD table is per association)
	e.sys.in.addConn(0)
	e.sys.m.Assoc[0], e.sys.m.PFD[0] = "", nil
	e.sys.exec(&sessReq{sReq: sReq{Kind: kAssoc, Conn: 0}})
	for _, r := range seq {
		names = append(names, r.Name)
		ctx := e.sys.exec(&sessReq{sReq: r.Req})
		res.Evaluations++
		cs := c08Case{App: true, PFDSeq: append([]string{}, names...)}
		if ctx.pframe != "" {
			res.finding("c08:panic:"+ctx.pframe, ctx.pmsg, cs)
			return
		}
		if ctx.accepted {
			loose = r.Loose
		}
		if ctx.accepted != r.Accepted && !r.Loose {
			res.finding("c08:pfd-cause:"+r.Name, fmt.Sprintf("PFD Management request %s accepted=%v, expected %v", r.Name, ctx.accepted, r.Accepted), cs)
		}
		if ctx.accepted {
			table = r.Table
		}
	}
	// PDRs naming each application, both directions
	// two UE addresses one after the other: 'assigned' is each PDR's own UE address, "the same for all PDRs of that direction"
	for _, ueAddr := range []string{"16.0.0.1", "16.0.0.9"} {
		for _, app := range []string{"app1", "app2", "app3"} {
			for _, uplink := range []bool{false, true} {
				cs := c08Case{App: true, PFDSeq: names, Uplink: uplink, UE: ueAddr, Desc: app}
				res.journal(cs)
				entries, accepted, pframe := e.entriesFor(cs, "", app)
				res.Evaluations++
				if pframe != "" {
					res.finding("c08:panic:"+strings.SplitN(pframe, ":", 2)[0], pframe, cs)
					continue
				}
				flows, known := table[app]
				if !known {
					if accepted {
						res.finding("c08:pfd-unknown-app-accepted", fmt.Sprintf("after %v a PDR naming %s (not in the table) was accepted", names, app), cs)
					}
					continue
				}
				if !accepted && loose {
					res.outcome("pfd-malformed-refused")
					continue // refused: one of the two reactions the statement allows
				}
				if !accepted {
					res.finding("c08:pfd-table-lost:"+app, fmt.Sprintf("after %v the application %s must be provisioned, but a PDR naming it was refused", names, app), cs)
					continue
				}
				// the description whose direction keyword the agent associates with the PDR's direction: "out" for uplink, "in" for downlink
				want := ""
				kw := "in"
				if uplink {
					kw = "out"
				}
				for _, fl := range flows {
					if _, perr := refParseFlow(fl); perr != nil && loose {
						continue // malformed: never the source of a filter
					}
					if f := strings.Fields(fl); len(f) > 1 && f[1] == kw && want == "" {
						want = fl
					}
				}
				box := pdrBox(cs.rPDR(""), nil)
				if want != "" {
					// verbatim: source -> packet source, destination -> packet destination
					rf, _ := refParseFlow(want)
					if rf.Proto >= 0 {
						box.v[fbProto], box.m[fbProto] = uint64(rf.Proto), 0xFF
					}
					ue := uint64(vIP4(cs.UE))
					box.v[fbSrcIP], box.m[fbSrcIP] = uint64(rf.Src.IP), uint64(refMask(rf.Src.Len))
					box.v[fbDstIP], box.m[fbDstIP] = ue, 0xFFFFFFFF // 'assigned'
					if rf.Src.HasPort {
						box.sLo, box.sHi = rf.Src.Lo, rf.Src.Hi
					}
					if rf.Dst.HasPort {
						box.dLo, box.dHi = rf.Dst.Lo, rf.Dst.Hi
					}
				}
				if loose {
					// ignored (UE address only) or the first well-formed description of the direction, verbatim
					res.outcome("pfd-malformed-accepted")
					if v := c08Compare(entries, box); v != "" {
						if v2 := c08Compare(entries, pdrBox(cs.rPDR(""), nil)); v2 != "" {
							res.finding("c08:pfd-malformed-yields-filter", fmt.Sprintf("after %v, PDR naming %s: the table holds malformed descriptions and the filter is neither the UE address alone (%s) nor %q verbatim (%s)", names, app, v2, want, v), cs)
						}
					}
					res.Distinct++
					continue
				}
				if v := c08Compare(entries, box); v != "" {
					res.finding("c08:pfd-filter-differs", fmt.Sprintf("after %v, %s PDR naming %s: %s (expected the %q description %q verbatim)", names, map[bool]string{true: "uplink", false: "downlink"}[uplink], app, v, kw, want), cs)
				}
				res.Distinct++
			}
		}
	}
}

// ---- UP4: the same grammar through the P4Runtime plug-in. The remote side of the filter lives in the applications table
// (LPM prefix, port range, ternary protocol), the UE side in the terminations entries that name the application id;
// C04's image check is the oracle (it derives the expected entry from the description with the reference reader).
type c08UP4Env struct {
	res *vResult
	sys *sessSys
	n   int
}

func (e *c08UP4Env) fresh() {
	if e.sys != nil {
		e.res.Transitions += int64(e.sys.steps)
		e.sys.close()
	}
	cfg := vCfg{P4: true, NConns: 1, P4Conf: &vP4Cfg{DefaultTC: 3}}
	e.sys = &sessSys{ex: &seqExplorer{res: e.res, scenario: cfg}, res: e.res, in: newVInst(cfg), m: newRefAgent(1)}
	e.sys.exec(&sessReq{sReq: sReq{Kind: kAssoc, Conn: 0}})
}

func (e *c08UP4Env) check(desc, prev string) {
	res := e.res
	// (a refused establishment keeps its counter cells - recorded finding of C05 - so the instance is renewed regularly)
	if e.n%40 == 0 {
		e.fresh()
	}
	e.n++
	cs := c08Case{Desc: desc, P4: true, UE: "16.0.0.1", Prev: prev}
	res.journal(cs)
	res.Evaluations++
	// the neighbour in the grammar (same remote and protocol, other ports) is live for another UE meanwhile: two filters
	// that differ in their ports only must not share an applications entry
	var prevSess *rSess
	if prev != "" {
		pp, pf, pq := up4RuleSet("16.0.0.2", 0x200, c04Peers[0], prev, 1, 0)
		if flt, strict := refPDRFilter(&rPDR{sPDR: sPDR{SDF: prev}}); flt == nil && strict {
			pp = pp[2:]
		}
		if pc := e.sys.exec(&sessReq{sReq: sReq{Kind: kEst, Conn: 0, CPSEID: uint64(100000 + e.n), CreatePDR: pp, CreateFAR: pf, CreateQER: pq}}); pc.pframe == "" && pc.newSess != nil {
			prevSess = pc.newSess
		}
	}
	defer func() {
		if prevSess != nil && e.n != 0 {
			e.sys.exec(&sessReq{sReq: sReq{Kind: kDel, Conn: 0}, Sess: prevSess.Idx})
		}
	}()
	p, f, q := up4RuleSet("16.0.0.1", 0x100, c04Peers[0], desc, 1, 0)
	flt, strict := refPDRFilter(&rPDR{sPDR: sPDR{SDF: desc}})
	if flt == nil && strict {
		// no constraint beyond the UE address: the pair has the match key of the default rules, so it goes without them (two
		// rules of one session with one match key are kept out of every alphabet, DESIGN.md section 11)
		p = p[2:]
	}
	ctx := e.sys.exec(&sessReq{sReq: sReq{Kind: kEst, Conn: 0, CPSEID: uint64(e.n), CreatePDR: p, CreateFAR: f, CreateQER: q}})
	switch {
	case ctx.pframe != "":
		res.finding("c08:up4-panic:"+ctx.pframe, fmt.Sprintf("%q: %s", desc, ctx.pmsg), cs)
		e.n = 0 // the instance is dead
		return
	case !strict:
		res.outcome("up4-loose")
	case !ctx.accepted || ctx.newSess == nil:
		res.outcome("up4-strict-refused")
		res.finding("c08:up4-grammar-refused", fmt.Sprintf("description %q of the supported grammar was refused by the UP4 plug-in", desc), cs)
	default:
		res.outcome("up4-strict")
		res.Distinct++
		for _, v := range up4ImageCheck(e.sys) {
			res.finding("c08:up4-filter-differs:"+v.class, fmt.Sprintf("%q through UP4: %s", desc, v.desc), cs)
			break
		}
	}
	if ctx.newSess != nil {
		e.sys.exec(&sessReq{sReq: sReq{Kind: kDel, Conn: 0}, Sess: ctx.newSess.Idx})
	}
}

func TestVerifC08(t *testing.T) {
	vQuietLoggers()
	res := vNewResult()
	defer res.write(t)
	res.Rule = "grammar expanded completely over action {permit,deny} x direction {in,out} x protocol {ip,tcp,udp,6,17,1,127,128,132,254,0,255} x remote {any, host, /32, /31, /24, /8, /1, /0} x port {absent, p, p-p, lo-hi, 65535, 0-65535, 1, 65530-65535, 0-5, 256, 512-520} x both " +
		"endpoint orders (+ UE-side ports / no assigned side: crash-freedom only), each string inline in a Create PDR for both PDR directions and UE address present/absent; every token-level corruption (delete, duplicate, " +
		"truncate after, replace by 12 junk tokens) of a stratified subset of descriptions (thorough: of all); every sequence of <= 3 PFD Management requests over {T1, T2, T3, T4 (UE-side ports), T5 (malformed descriptions among well-formed ones), empty, three rejected forms} followed by PDRs naming " +
		"app1/app2/app3 in both directions for two UE addresses in turn; every 'from <remote> [ports] to assigned' string of the grammar also through the UP4 plug-in, next to a live session of another UE that carries the preceding string of the grammar (applications / terminations entries compared by C04's image check). distinct_nontrivial = strict grammar cases + PFD cases compared at the fake BESS"
	res.Assumptions = []string{"reference denotation of DESIGN.md appendix A.1: the remote endpoint is the one that is not 'assigned'; oriented by the PDR's direction",
		"ports wider than 100 are left to C17 (the Exact strategy refuses them after acceptance); protocol 0/255, port 0, UE-side ports: generated, crash-freedom only"}
	e := newC08Env(res)
	bessOpen := true
	closeBESS := func() {
		if bessOpen {
			bessOpen = false
			e.sys.close()
		}
	}
	defer closeBESS()
	if rc := vReplayCase(); rc != nil {
		var cs c08Case
		json.Unmarshal(rc, &cs)
		if cs.P4 {
			closeBESS() // one instance at a time (the metrics collectors are process-wide)
			u := &c08UP4Env{res: res}
			u.check(cs.Desc, cs.Prev)
			u.sys.close()
			return
		}
		if cs.App {
			all := c08PFDReqs()
			var seq []c08PFDReq
			for _, n := range cs.PFDSeq {
				for _, r := range all {
					if r.Name == n {
						seq = append(seq, r)
					}
				}
			}
			e.checkPFDSeq(seq)
			return
		}
		e.checkInline(cs)
		return
	}
	gram := c08Grammar(vEnv.Thorough)
	item := 0
	for gi, d := range gram {
		item++
		if !vMine(item) || res.expired() {
			continue
		}
		for _, uplink := range []bool{false, true} {
			for _, ue := range []string{"16.0.0.1", ""} {
				if ue == "" && gi%4 != 0 {
					continue
				}
				e.checkInline(c08Case{Desc: d, Uplink: uplink, UE: ue})
			}
		}
		// corruptions of a stratified subset: every description whose index covers each (protocol, remote, port) class once
		if vEnv.Thorough || gi%97 == 0 {
			for _, c := range c08Corruptions(d) {
				for _, uplink := range []bool{false, true} {
					e.checkInline(c08Case{Desc: c, Uplink: uplink, UE: "16.0.0.1"})
				}
			}
		}
	}
	res.Extra["grammar_strings"] = len(gram)
	// PFD sequences
	reqs := c08PFDReqs()
	var rec func(seq []c08PFDReq)
	rec = func(seq []c08PFDReq) {
		if len(seq) > 0 {
			item++
			if vMine(item) {
				e.checkPFDSeq(seq)
			}
		}
		if len(seq) == 3 {
			return
		}
		for _, r := range reqs {
			rec(append(append([]c08PFDReq{}, seq...), r))
		}
	}
	rec(nil)
	// UP4: every description of the form the statement fixes a meaning for ("... from <remote> [ports] to assigned")
	closeBESS() // one instance at a time (the metrics collectors are process-wide)
	u4 := &c08UP4Env{res: res}
	nu4 := 0
	prevDesc := ""
	for _, d := range c08UP4Grammar() {
		item++
		nu4++
		pd := prevDesc
		prevDesc = d
		if !vMine(item) || res.expired() {
			continue
		}
		u4.check(d, pd)
	}
	if u4.sys != nil {
		res.Transitions += int64(u4.sys.steps)
		u4.sys.close()
	}
	res.Extra["up4_strings"] = nu4
	res.sample(c08Case{Desc: "permit out tcp from 10.1.2.0/24 1000-1003 to assigned", Uplink: true, UE: "16.0.0.1"})
	res.sample(c08Case{Desc: "permit out tcp from 10.1.2.0/24 9-3 to assigned", Uplink: false, UE: "16.0.0.1"})
	res.sample(c08Case{App: true, PFDSeq: []string{"T1", "bad-noflow-app1", "T2"}})
}
