//go:build verif

// Fake P4Runtime switch with P4Runtime write semantics (spec 9.1/12: entry identity = table + match + priority;
// INSERT existing -> ALREADY_EXISTS; MODIFY/DELETE missing -> NOT_FOUND; a batch is applied update by update and a
// failing batch returns status UNKNOWN with one p4.Error per update), meters/counters as MODIFY-only arrays, a validator
// of every update against the served P4Info (C16), fault injection at the k-th Write, PacketOut recorder.
// Usable directly as p4.P4RuntimeClient (bulk exploration) and behind a real gRPC server (full start-up path).
package pfcpiface

import (
	"context"
	"fmt"
	"io"
	"math/big"
	"net"
	"os"
	"path/filepath"
	"reflect"
	"sort"
	"strings"
	"sync"
	"time"
	"unsafe"

	set "github.com/deckarep/golang-set"
	"github.com/golang/protobuf/proto"
	p4cfg "github.com/p4lang/p4runtime/go/p4/config/v1"
	p4 "github.com/p4lang/p4runtime/go/p4/v1"
	"google.golang.org/genproto/googleapis/rpc/code"
	spb "google.golang.org/genproto/googleapis/rpc/status"
	"google.golang.org/grpc"
	"google.golang.org/grpc/codes"
	"google.golang.org/grpc/status"
	"google.golang.org/protobuf/types/known/anypb"
)

type fpMatch struct {
	Kind      string // exact, lpm, ternary, range
	Val, Mask uint64 // mask: ternary mask / range high
	Plen      int32
}

type fpEntry struct {
	Table  string
	Prio   int32
	Match  map[string]fpMatch
	Action string
	Params map[string]uint64
	Epoch  int
	key    string
}

func (e *fpEntry) String() string {
	var ms, ps []string
	for k, m := range e.Match {
		ms = append(ms, fmt.Sprintf("%s=%s:%x/%x/%d", k, m.Kind, m.Val, m.Mask, m.Plen))
	}
	for k, v := range e.Params {
		ps = append(ps, fmt.Sprintf("%s=%x", k, v))
	}
	sort.Strings(ms)
	sort.Strings(ps)
	return fmt.Sprintf("%s[%s]p%d -> %s(%s)", e.Table, strings.Join(ms, ","), e.Prio, e.Action, strings.Join(ps, ","))
}

type fpMeterCell struct {
	Configured               bool
	Cir, Cburst, Pir, Pburst int64
	Epoch                    int
}

type fpFault struct {
	Shape string // "transport" (not applied), "p4err" (not applied, per-update INTERNAL), "lost" (applied, response lost), "unknown-bare" (not applied, UNKNOWN without details), "refuse-last" (the last update of the batch is refused with RESOURCE_EXHAUSTED, the others are applied and get their true status)
}

type fpWriteRec struct {
	Idx     int
	Updates []string
	Err     string
	Epoch   int
}

type fakeP4 struct {
	mu        sync.Mutex
	info      *p4cfg.P4Info
	tblByID   map[uint32]*p4cfg.Table
	actByID   map[uint32]*p4cfg.Action
	meterByID map[uint32]*p4cfg.Meter
	ctrByID   map[uint32]*p4cfg.Counter
	tables    map[string]map[string]*fpEntry // table name -> key -> entry
	meters    map[string]map[int64]*fpMeterCell
	ctrWrites map[string]map[int64]int
	log       []fpWriteRec
	nwrite    int
	epoch     int
	faults    map[int]fpFault
	deadAfter int
	pktOuts   [][]byte
	invalid   []string // C16: validation failures "class|detail"
	nupdates  int
	streams   []p4.P4Runtime_StreamChannelServer
}

var (
	fpInfoOnce sync.Once
	fpInfoBase *p4cfg.P4Info
)

func fpLoadInfo() *p4cfg.P4Info {
	fpInfoOnce.Do(func() {
		b, err := os.ReadFile(filepath.Join(vEnv.Repo, "conf", "p4", "bin", "p4info.txt"))
		if err != nil {
			panic("VERIF-INFRA: cannot read p4info: " + err.Error())
		}
		fpInfoBase = &p4cfg.P4Info{}
		if err := proto.UnmarshalText(string(b), fpInfoBase); err != nil {
			panic("VERIF-INFRA: cannot parse p4info: " + err.Error())
		}
	})
	return fpInfoBase
}

// newFakeP4 serves the shipped P4Info, optionally with reduced counter / meter array sizes (so that pools can be
// exhausted by a short history).
func newFakeP4(counterSize, meterSize int64) *fakeP4 {
	info := proto.Clone(fpLoadInfo()).(*p4cfg.P4Info)
	for _, c := range info.Counters {
		if counterSize > 0 {
			c.Size = counterSize
		}
	}
	for _, m := range info.Meters {
		if meterSize > 0 && (strings.HasSuffix(m.Preamble.Name, "app_meter") || strings.HasSuffix(m.Preamble.Name, "session_meter")) {
			m.Size = meterSize
		}
	}
	f := &fakeP4{info: info, tblByID: map[uint32]*p4cfg.Table{}, actByID: map[uint32]*p4cfg.Action{}, meterByID: map[uint32]*p4cfg.Meter{},
		ctrByID: map[uint32]*p4cfg.Counter{}, tables: map[string]map[string]*fpEntry{}, meters: map[string]map[int64]*fpMeterCell{},
		ctrWrites: map[string]map[int64]int{}, faults: map[int]fpFault{}, deadAfter: -1}
	for _, t := range info.Tables {
		f.tblByID[t.Preamble.Id] = t
		f.tables[fpShort(t.Preamble.Name)] = map[string]*fpEntry{}
	}
	for _, a := range info.Actions {
		f.actByID[a.Preamble.Id] = a
	}
	for _, m := range info.Meters {
		f.meterByID[m.Preamble.Id] = m
		f.meters[fpShort(m.Preamble.Name)] = map[int64]*fpMeterCell{}
	}
	for _, c := range info.Counters {
		f.ctrByID[c.Preamble.Id] = c
		f.ctrWrites[fpShort(c.Preamble.Name)] = map[int64]int{}
	}
	return f
}

func fpShort(name string) string {
	if i := strings.LastIndex(name, "."); i >= 0 {
		return name[i+1:]
	}
	return name
}

func fpUint(b []byte) (uint64, bool) {
	v := new(big.Int).SetBytes(b)
	if !v.IsUint64() {
		return 0, false
	}
	return v.Uint64(), true
}

func (f *fakeP4) bad(class, detail string) {
	if len(f.invalid) < 200 {
		f.invalid = append(f.invalid, class+"|"+detail)
	}
}

func fits(b []byte, width int32) bool {
	v := new(big.Int).SetBytes(b)
	return v.BitLen() <= int(width)
}

// decode validates a table entry against the P4Info (C16) and returns its decoded form.
func (f *fakeP4) decode(te *p4.TableEntry, needAction bool) (*fpEntry, bool) {
	t := f.tblByID[te.TableId]
	if t == nil {
		f.bad("unknown-table", fmt.Sprint(te.TableId))
		return nil, false
	}
	e := &fpEntry{Table: fpShort(t.Preamble.Name), Prio: te.Priority, Match: map[string]fpMatch{}, Params: map[string]uint64{}, Epoch: f.epoch}
	needPrio := false
	for _, mf := range t.MatchFields {
		if mf.GetMatchType() == p4cfg.MatchField_TERNARY || mf.GetMatchType() == p4cfg.MatchField_RANGE {
			needPrio = true
		}
	}
	ok := true
	seen := map[uint32]bool{}
	for _, m := range te.Match {
		var mf *p4cfg.MatchField
		for _, x := range t.MatchFields {
			if x.Id == m.FieldId {
				mf = x
			}
		}
		if mf == nil {
			f.bad("field-not-in-table", fmt.Sprintf("%s field id %d", e.Table, m.FieldId))
			ok = false
			continue
		}
		if seen[m.FieldId] {
			f.bad("field-twice", e.Table+"."+mf.Name)
			ok = false
		}
		seen[m.FieldId] = true
		var fm fpMatch
		switch x := m.FieldMatchType.(type) {
		case *p4.FieldMatch_Exact_:
			fm.Kind = "exact"
			if mf.GetMatchType() != p4cfg.MatchField_EXACT {
				f.bad("match-kind", fmt.Sprintf("%s.%s written as exact, declared %v", e.Table, mf.Name, mf.GetMatchType()))
				ok = false
			}
			if !fits(x.Exact.Value, mf.Bitwidth) {
				f.bad("value-width", fmt.Sprintf("%s.%s value %x does not fit %d bits", e.Table, mf.Name, x.Exact.Value, mf.Bitwidth))
				ok = false
			}
			fm.Val, _ = fpUint(x.Exact.Value)
		case *p4.FieldMatch_Lpm:
			fm.Kind = "lpm"
			if mf.GetMatchType() != p4cfg.MatchField_LPM {
				f.bad("match-kind", fmt.Sprintf("%s.%s written as lpm, declared %v", e.Table, mf.Name, mf.GetMatchType()))
				ok = false
			}
			if !fits(x.Lpm.Value, mf.Bitwidth) {
				f.bad("value-width", fmt.Sprintf("%s.%s value %x does not fit %d bits", e.Table, mf.Name, x.Lpm.Value, mf.Bitwidth))
				ok = false
			}
			if x.Lpm.PrefixLen < 0 || x.Lpm.PrefixLen > mf.Bitwidth {
				f.bad("lpm-prefix-len", fmt.Sprintf("%s.%s prefix length %d, width %d", e.Table, mf.Name, x.Lpm.PrefixLen, mf.Bitwidth))
				ok = false
			}
			fm.Val, _ = fpUint(x.Lpm.Value)
			fm.Plen = x.Lpm.PrefixLen
		case *p4.FieldMatch_Ternary_:
			fm.Kind = "ternary"
			if mf.GetMatchType() != p4cfg.MatchField_TERNARY {
				f.bad("match-kind", fmt.Sprintf("%s.%s written as ternary, declared %v", e.Table, mf.Name, mf.GetMatchType()))
				ok = false
			}
			if !fits(x.Ternary.Value, mf.Bitwidth) || !fits(x.Ternary.Mask, mf.Bitwidth) {
				f.bad("value-width", fmt.Sprintf("%s.%s ternary %x/%x does not fit %d bits", e.Table, mf.Name, x.Ternary.Value, x.Ternary.Mask, mf.Bitwidth))
				ok = false
			}
			fm.Val, _ = fpUint(x.Ternary.Value)
			fm.Mask, _ = fpUint(x.Ternary.Mask)
		case *p4.FieldMatch_Range_:
			fm.Kind = "range"
			if mf.GetMatchType() != p4cfg.MatchField_RANGE {
				f.bad("match-kind", fmt.Sprintf("%s.%s written as range, declared %v", e.Table, mf.Name, mf.GetMatchType()))
				ok = false
			}
			if !fits(x.Range.Low, mf.Bitwidth) || !fits(x.Range.High, mf.Bitwidth) {
				f.bad("value-width", fmt.Sprintf("%s.%s range %x-%x does not fit %d bits", e.Table, mf.Name, x.Range.Low, x.Range.High, mf.Bitwidth))
				ok = false
			}
			fm.Val, _ = fpUint(x.Range.Low)
			fm.Mask, _ = fpUint(x.Range.High)
			if fm.Val > fm.Mask {
				f.bad("range-inverted", fmt.Sprintf("%s.%s %d-%d", e.Table, mf.Name, fm.Val, fm.Mask))
				ok = false
			}
		default:
			f.bad("match-kind", fmt.Sprintf("%s.%s unsupported match encoding", e.Table, mf.Name))
			ok = false
		}
		e.Match[mf.Name] = fm
	}
	if len(te.Match) > 0 || needAction {
		for _, mf := range t.MatchFields {
			if mf.GetMatchType() == p4cfg.MatchField_EXACT && !seen[mf.Id] {
				f.bad("exact-field-missing", e.Table+"."+mf.Name)
				ok = false
			}
		}
		if needPrio && te.Priority <= 0 {
			f.bad("priority-zero", fmt.Sprintf("%s has ternary/range fields but priority %d", e.Table, te.Priority))
			ok = false
		}
		if !needPrio && te.Priority != 0 {
			f.bad("priority-nonzero", fmt.Sprintf("%s has no ternary/range fields but priority %d", e.Table, te.Priority))
			ok = false
		}
	}
	if a := te.GetAction().GetAction(); a != nil {
		act := f.actByID[a.ActionId]
		allowed := false
		for _, r := range t.ActionRefs {
			if r.Id == a.ActionId {
				allowed = true
			}
		}
		if act == nil || !allowed {
			f.bad("action-not-allowed", fmt.Sprintf("%s action id %d", e.Table, a.ActionId))
			return e, false
		}
		e.Action = fpShort(act.Preamble.Name)
		seenP := map[uint32]bool{}
		for _, p := range a.Params {
			var ap *p4cfg.Action_Param
			for _, x := range act.Params {
				if x.Id == p.ParamId {
					ap = x
				}
			}
			if ap == nil {
				f.bad("param-unknown", fmt.Sprintf("%s.%s param id %d", e.Table, e.Action, p.ParamId))
				ok = false
				continue
			}
			if seenP[p.ParamId] {
				f.bad("param-twice", e.Action+"."+ap.Name)
				ok = false
			}
			seenP[p.ParamId] = true
			if !fits(p.Value, ap.Bitwidth) {
				f.bad("param-width", fmt.Sprintf("%s.%s value %x does not fit %d bits", e.Action, ap.Name, p.Value, ap.Bitwidth))
				ok = false
			}
			e.Params[ap.Name], _ = fpUint(p.Value)
		}
		for _, x := range act.Params {
			if !seenP[x.Id] {
				f.bad("param-missing", e.Action+"."+x.Name)
				ok = false
			}
		}
	} else if needAction {
		f.bad("no-action", e.Table)
		ok = false
	}
	var ks []string
	for k, m := range e.Match {
		ks = append(ks, fmt.Sprintf("%s=%s:%x/%x/%d", k, m.Kind, m.Val, m.Mask, m.Plen))
	}
	sort.Strings(ks)
	e.key = strings.Join(ks, ",") + fmt.Sprintf("|p%d", e.Prio)
	return e, ok
}

func updSummary(u *p4.Update) string {
	if u == nil || u.Entity == nil {
		return "nil-update"
	}
	switch x := u.Entity.Entity.(type) {
	case *p4.Entity_TableEntry:
		return fmt.Sprintf("%v table %d", u.Type, x.TableEntry.TableId)
	case *p4.Entity_MeterEntry:
		return fmt.Sprintf("%v meter %d[%d]", u.Type, x.MeterEntry.MeterId, x.MeterEntry.GetIndex().GetIndex())
	case *p4.Entity_CounterEntry:
		return fmt.Sprintf("%v counter %d[%d]", u.Type, x.CounterEntry.CounterId, x.CounterEntry.GetIndex().GetIndex())
	}
	return "other"
}

// write applies one WriteRequest.
func (f *fakeP4) write(req *p4.WriteRequest) error {
	f.mu.Lock()
	defer f.mu.Unlock()
	idx := f.nwrite
	f.nwrite++
	rec := fpWriteRec{Idx: idx, Epoch: f.epoch}
	for _, u := range req.Updates {
		rec.Updates = append(rec.Updates, updSummary(u))
	}
	defer func() { f.log = append(f.log, rec) }()
	if f.deadAfter >= 0 && idx >= f.deadAfter {
		rec.Err = "dead"
		return status.Error(codes.Unavailable, "agent is dead")
	}
	fault, hasFault := f.faults[idx]
	if hasFault && fault.Shape == "transport" {
		rec.Err = "injected transport error"
		return status.Error(codes.Unavailable, "injected transport error")
	}
	if hasFault && fault.Shape == "unknown-bare" {
		// gRPC status UNKNOWN without per-update details (a server-side failure outside the P4Runtime error model)
		rec.Err = "injected UNKNOWN without details"
		return status.Error(codes.Unknown, "injected failure without details")
	}
	if hasFault && fault.Shape == "p4err" {
		rec.Err = "injected p4 error"
		st := status.New(codes.Unknown, "injected write error")
		var details []proto.Message
		for range req.Updates {
			details = append(details, &p4.Error{CanonicalCode: int32(codes.Internal), Message: "injected"})
		}
		return fpStatusWithDetails(st, details)
	}
	errs := make([]*p4.Error, len(req.Updates))
	failed := false
	for i, u := range req.Updates {
		f.nupdates++
		if hasFault && fault.Shape == "refuse-last" && i == len(req.Updates)-1 {
			errs[i] = &p4.Error{CanonicalCode: int32(codes.ResourceExhausted), Message: "injected per-update refusal"}
			failed = true
			continue
		}
		c := f.applyUpdate(u)
		errs[i] = &p4.Error{CanonicalCode: int32(c)}
		if c != codes.OK {
			failed = true
			errs[i].Message = c.String()
		}
	}
	if hasFault && fault.Shape == "lost" {
		rec.Err = "applied, response lost"
		return status.Error(codes.Unavailable, "injected: response lost")
	}
	if failed {
		var details []proto.Message
		var cs []string
		for _, e := range errs {
			details = append(details, e)
			cs = append(cs, codes.Code(e.CanonicalCode).String())
		}
		rec.Err = strings.Join(cs, ",")
		if hasFault && fault.Shape == "refuse-last" {
			rec.Err = "injected per-update refusal (" + rec.Err + ")"
		}
		return fpStatusWithDetails(status.New(codes.Unknown, "write failed"), details)
	}
	return nil
}

func fpStatusWithDetails(st *status.Status, details []proto.Message) error {
	p := st.Proto()
	for _, d := range details {
		a, err := fpAny(d)
		if err != nil {
			panic(err)
		}
		p.Details = append(p.Details, a)
	}
	return status.FromProto(p).Err()
}

func fpAny(m proto.Message) (*anypb.Any, error) { return anypb.New(proto.MessageV2(m)) }

func (f *fakeP4) applyUpdate(u *p4.Update) codes.Code {
	if u == nil || u.Entity == nil {
		f.bad("nil-update", "a WriteRequest carries an empty update")
		return codes.InvalidArgument
	}
	switch x := u.Entity.Entity.(type) {
	case *p4.Entity_TableEntry:
		e, ok := f.decode(x.TableEntry, u.Type != p4.Update_DELETE)
		if e == nil {
			return codes.InvalidArgument
		}
		if !ok {
			return codes.InvalidArgument
		}
		tbl := f.tables[e.Table]
		_, exists := tbl[e.key]
		switch u.Type {
		case p4.Update_INSERT:
			if exists {
				return codes.AlreadyExists
			}
			tbl[e.key] = e
		case p4.Update_MODIFY:
			if !exists {
				return codes.NotFound
			}
			tbl[e.key] = e
		case p4.Update_DELETE:
			if !exists {
				return codes.NotFound
			}
			delete(tbl, e.key)
		default:
			f.bad("update-type", fmt.Sprint(u.Type))
			return codes.InvalidArgument
		}
	case *p4.Entity_MeterEntry:
		m := f.meterByID[x.MeterEntry.MeterId]
		if m == nil {
			f.bad("unknown-meter", fmt.Sprint(x.MeterEntry.MeterId))
			return codes.InvalidArgument
		}
		i := x.MeterEntry.GetIndex().GetIndex()
		if x.MeterEntry.Index == nil || i < 0 || i >= m.Size {
			f.bad("meter-index", fmt.Sprintf("%s[%d], size %d", fpShort(m.Preamble.Name), i, m.Size))
			return codes.InvalidArgument
		}
		if u.Type != p4.Update_MODIFY {
			f.bad("meter-update-type", fmt.Sprint(u.Type))
			return codes.InvalidArgument
		}
		cells := f.meters[fpShort(m.Preamble.Name)]
		if c := x.MeterEntry.Config; c != nil {
			cells[i] = &fpMeterCell{Configured: true, Cir: c.Cir, Cburst: c.Cburst, Pir: c.Pir, Pburst: c.Pburst, Epoch: f.epoch}
		} else {
			delete(cells, i)
		}
	case *p4.Entity_CounterEntry:
		c := f.ctrByID[x.CounterEntry.CounterId]
		if c == nil {
			f.bad("unknown-counter", fmt.Sprint(x.CounterEntry.CounterId))
			return codes.InvalidArgument
		}
		i := x.CounterEntry.GetIndex().GetIndex()
		if x.CounterEntry.Index == nil || i < 0 || i >= c.Size {
			f.bad("counter-index", fmt.Sprintf("%s[%d], size %d", fpShort(c.Preamble.Name), i, c.Size))
			return codes.InvalidArgument
		}
		f.ctrWrites[fpShort(c.Preamble.Name)][i]++
	default:
		f.bad("entity-kind", fmt.Sprintf("%T", x))
		return codes.Unimplemented
	}
	return codes.OK
}

func (f *fakeP4) read(req *p4.ReadRequest) *p4.ReadResponse {
	f.mu.Lock()
	defer f.mu.Unlock()
	resp := &p4.ReadResponse{}
	for _, ent := range req.Entities {
		te := ent.GetTableEntry()
		if te == nil {
			continue
		}
		t := f.tblByID[te.TableId]
		if t == nil {
			continue
		}
		for _, e := range f.tables[fpShort(t.Preamble.Name)] {
			resp.Entities = append(resp.Entities, &p4.Entity{Entity: &p4.Entity_TableEntry{TableEntry: f.encode(t, e)}})
		}
	}
	return resp
}

func fpBytes(v uint64, width int32) []byte {
	n := int((width + 7) / 8)
	b := make([]byte, n)
	for i := n - 1; i >= 0; i-- {
		b[i] = byte(v)
		v >>= 8
	}
	return b
}

// encode re-creates the wire form of a stored entry (for Read).
func (f *fakeP4) encode(t *p4cfg.Table, e *fpEntry) *p4.TableEntry {
	te := &p4.TableEntry{TableId: t.Preamble.Id, Priority: e.Prio}
	for _, mf := range t.MatchFields {
		m, ok := e.Match[mf.Name]
		if !ok {
			continue
		}
		fm := &p4.FieldMatch{FieldId: mf.Id}
		switch m.Kind {
		case "exact":
			fm.FieldMatchType = &p4.FieldMatch_Exact_{Exact: &p4.FieldMatch_Exact{Value: fpBytes(m.Val, mf.Bitwidth)}}
		case "lpm":
			fm.FieldMatchType = &p4.FieldMatch_Lpm{Lpm: &p4.FieldMatch_LPM{Value: fpBytes(m.Val, mf.Bitwidth), PrefixLen: m.Plen}}
		case "ternary":
			fm.FieldMatchType = &p4.FieldMatch_Ternary_{Ternary: &p4.FieldMatch_Ternary{Value: fpBytes(m.Val, mf.Bitwidth), Mask: fpBytes(m.Mask, mf.Bitwidth)}}
		case "range":
			fm.FieldMatchType = &p4.FieldMatch_Range_{Range: &p4.FieldMatch_Range{Low: fpBytes(m.Val, mf.Bitwidth), High: fpBytes(m.Mask, mf.Bitwidth)}}
		}
		te.Match = append(te.Match, fm)
	}
	for _, a := range f.info.Actions {
		if fpShort(a.Preamble.Name) == e.Action {
			allowed := false
			for _, r := range t.ActionRefs {
				if r.Id == a.Preamble.Id {
					allowed = true
				}
			}
			if !allowed {
				continue
			}
			act := &p4.Action{ActionId: a.Preamble.Id}
			for _, p := range a.Params {
				act.Params = append(act.Params, &p4.Action_Param{ParamId: p.Id, Value: fpBytes(e.Params[p.Name], p.Bitwidth)})
			}
			te.Action = &p4.TableAction{Type: &p4.TableAction_Action{Action: act}}
		}
	}
	return te
}

// ------------------------------------------------------------------------------------------------ observation helpers

func (f *fakeP4) list(table string) []*fpEntry {
	f.mu.Lock()
	defer f.mu.Unlock()
	var out []*fpEntry
	for _, e := range f.tables[table] {
		out = append(out, e)
	}
	sort.Slice(out, func(i, j int) bool { return out[i].key < out[j].key })
	return out
}

func (f *fakeP4) meterCells(name string) map[int64]fpMeterCell {
	f.mu.Lock()
	defer f.mu.Unlock()
	out := map[int64]fpMeterCell{}
	for k, v := range f.meters[name] {
		out[k] = *v
	}
	return out
}

func (f *fakeP4) takeInvalid() []string {
	f.mu.Lock()
	defer f.mu.Unlock()
	o := f.invalid
	f.invalid = nil
	return o
}

func (f *fakeP4) newEpoch() {
	f.mu.Lock()
	f.epoch++
	f.deadAfter = -1
	f.faults = map[int]fpFault{}
	f.mu.Unlock()
}

var fpSessionTables = []string{"sessions_uplink", "sessions_downlink", "terminations_uplink", "terminations_downlink", "applications", "tunnel_peers", "interfaces"}

// ------------------------------------------------------------------------------------------------ direct client

type fpClient struct {
	f *fakeP4
}

// vYieldHook, when set (scheduler engine), turns every datapath RPC of the direct clients into a scheduling point.
var vYieldHook func(loc string)

func (c *fpClient) Write(ctx context.Context, in *p4.WriteRequest, opts ...grpc.CallOption) (*p4.WriteResponse, error) {
	if vYieldHook != nil {
		vYieldHook("p4.write")
	}
	if err := c.f.write(in); err != nil {
		return nil, err
	}
	return &p4.WriteResponse{}, nil
}

type fpReadStream struct {
	grpc.ClientStream
	resp *p4.ReadResponse
	done bool
}

func (s *fpReadStream) Recv() (*p4.ReadResponse, error) {
	if s.done {
		return nil, io.EOF
	}
	s.done = true
	return s.resp, nil
}

func (c *fpClient) Read(ctx context.Context, in *p4.ReadRequest, opts ...grpc.CallOption) (p4.P4Runtime_ReadClient, error) {
	return &fpReadStream{resp: c.f.read(in)}, nil
}
func (c *fpClient) SetForwardingPipelineConfig(ctx context.Context, in *p4.SetForwardingPipelineConfigRequest, opts ...grpc.CallOption) (*p4.SetForwardingPipelineConfigResponse, error) {
	return &p4.SetForwardingPipelineConfigResponse{}, nil
}
func (c *fpClient) GetForwardingPipelineConfig(ctx context.Context, in *p4.GetForwardingPipelineConfigRequest, opts ...grpc.CallOption) (*p4.GetForwardingPipelineConfigResponse, error) {
	return &p4.GetForwardingPipelineConfigResponse{Config: &p4.ForwardingPipelineConfig{P4Info: c.f.info}}, nil
}
func (c *fpClient) StreamChannel(ctx context.Context, opts ...grpc.CallOption) (p4.P4Runtime_StreamChannelClient, error) {
	return nil, status.Error(codes.Unimplemented, "direct client has no stream")
}
func (c *fpClient) Capabilities(ctx context.Context, in *p4.CapabilitiesRequest, opts ...grpc.CallOption) (*p4.CapabilitiesResponse, error) {
	return &p4.CapabilitiesResponse{P4RuntimeApiVersion: "1.3.0"}, nil
}

// ------------------------------------------------------------------------------------------------ gRPC front end

type fpServer struct {
	p4.UnimplementedP4RuntimeServer
	mu  sync.Mutex
	cur *fakeP4
}

func (s *fpServer) get() *fakeP4 { s.mu.Lock(); defer s.mu.Unlock(); return s.cur }

func (s *fpServer) Write(ctx context.Context, in *p4.WriteRequest) (*p4.WriteResponse, error) {
	f := s.get()
	if f == nil {
		return nil, status.Error(codes.Unavailable, "no fake attached")
	}
	if err := f.write(in); err != nil {
		return nil, err
	}
	return &p4.WriteResponse{}, nil
}
func (s *fpServer) Read(in *p4.ReadRequest, srv p4.P4Runtime_ReadServer) error {
	f := s.get()
	if f == nil {
		return status.Error(codes.Unavailable, "no fake attached")
	}
	return srv.Send(f.read(in))
}
func (s *fpServer) GetForwardingPipelineConfig(ctx context.Context, in *p4.GetForwardingPipelineConfigRequest) (*p4.GetForwardingPipelineConfigResponse, error) {
	f := s.get()
	if f == nil {
		return nil, status.Error(codes.Unavailable, "no fake attached")
	}
	return &p4.GetForwardingPipelineConfigResponse{Config: &p4.ForwardingPipelineConfig{P4Info: f.info}}, nil
}
func (s *fpServer) SetForwardingPipelineConfig(ctx context.Context, in *p4.SetForwardingPipelineConfigRequest) (*p4.SetForwardingPipelineConfigResponse, error) {
	return &p4.SetForwardingPipelineConfigResponse{}, nil
}
func (s *fpServer) StreamChannel(srv p4.P4Runtime_StreamChannelServer) error {
	f := s.get()
	if f != nil {
		f.mu.Lock()
		f.streams = append(f.streams, srv)
		f.mu.Unlock()
	}
	for {
		m, err := srv.Recv()
		if err != nil {
			return nil
		}
		switch {
		case m.GetArbitration() != nil:
			// the agent's stream reader dereferences Status unconditionally: a reply must carry one
			srv.Send(&p4.StreamMessageResponse{Update: &p4.StreamMessageResponse_Arbitration{Arbitration: &p4.MasterArbitrationUpdate{
				DeviceId: m.GetArbitration().DeviceId, ElectionId: m.GetArbitration().ElectionId, Status: &spb.Status{Code: int32(code.Code_OK)}}}})
		case m.GetPacket() != nil:
			if f != nil {
				f.mu.Lock()
				f.pktOuts = append(f.pktOuts, append([]byte{}, m.GetPacket().Payload...))
				f.mu.Unlock()
			}
		}
	}
}

var (
	fpSrvOnce sync.Once
	fpSrv     *fpServer
	fpSrvHost string
	fpSrvPort string
)

func fpFrontEnd() (*fpServer, string, string) {
	fpSrvOnce.Do(func() {
		lis, err := net.Listen("tcp", "127.0.0.1:0")
		if err != nil {
			panic("VERIF-INFRA: " + err.Error())
		}
		fpSrv = &fpServer{}
		g := grpc.NewServer()
		p4.RegisterP4RuntimeServer(g, fpSrv)
		go g.Serve(lis)
		h, p, _ := net.SplitHostPort(lis.Addr().String())
		fpSrvHost, fpSrvPort = h, p
	})
	return fpSrv, fpSrvHost, fpSrvPort
}

// ------------------------------------------------------------------------------------------------ UP4 environment

type vP4Cfg struct {
	SliceID     uint8           `json:"slice,omitempty"`
	DefaultTC   uint8           `json:"deftc"`
	QFIToTC     map[uint8]uint8 `json:"qfitc,omitempty"`
	CounterSize int64           `json:"ctrsize,omitempty"`
	MeterSize   int64           `json:"metersize,omitempty"`
	UEPool      string          `json:"uepool,omitempty"`
}

type vP4Env struct {
	fp  *fakeP4
	up4 *UP4
	in  *vInst
}

const vP4DefaultPool = "16.0.0.0/8"

func p4ConfFor(cfg vCfg, conf *Conf) {
	pc := cfg.P4Conf
	if pc == nil {
		pc = &vP4Cfg{DefaultTC: 3}
	}
	conf.P4rtcIface = P4rtcInfo{SliceID: pc.SliceID, AccessIP: vN3Addr + "/32", QFIToTC: pc.QFIToTC, DefaultTC: pc.DefaultTC}
	if conf.CPIface.UEIPPool == "" {
		conf.CPIface.UEIPPool = vP4DefaultPool
		if pc.UEPool != "" {
			conf.CPIface.UEIPPool = pc.UEPool
		}
	}
}

func newVP4Env(in *vInst, conf *Conf) *vP4Env { return newVP4EnvWith(in, conf, nil) }

// newVP4EnvWith assembles the UP4 plug-in. Fast path: the fields SetUpfInfo sets are set here (SetUpfInfo itself would
// start keepTryingToConnect, an endless sleeper that leaks one goroutine and one gRPC channel per instance), then the real
// initialize(true) runs against the direct client. initOnce is consumed beforehand so that listenToDDNs (which spins
// when the instance is discarded) and the end-marker loop are not started; end markers are read from the channel.
// Full path (cfg.FullStartup): the real SetUpfInfo + tryConnect over gRPC.
func newVP4EnvWith(in *vInst, conf *Conf, old *fakeP4) *vP4Env {
	cfg := in.cfg
	p4ConfFor(cfg, conf)
	pc := cfg.P4Conf
	if pc == nil {
		pc = &vP4Cfg{DefaultTC: 3}
	}
	fp := old
	if fp == nil {
		fp = newFakeP4(pc.CounterSize, pc.MeterSize)
	}
	e := &vP4Env{fp: fp, in: in}
	up := &UP4{}
	in.u.datapath = up
	e.up4 = up
	if cfg.FullStartup {
		srv, host, port := fpFrontEnd()
		srv.mu.Lock()
		srv.cur = fp
		srv.mu.Unlock()
		conf.P4rtcIface.P4rtcServer, conf.P4rtcIface.P4rtcPort = host, port
		*p4RtcServerIP, *p4RtcServerPort = "", ""
		up.initOnce.Do(func() {})
		if cfg.EndMarker {
			up.endMarkerChan = make(chan []byte, 1024)
		}
		// the real SetUpfInfo, including its keepTryingToConnect goroutine, which performs the connection
		up.SetUpfInfo(in.u, conf)
		for i := 0; !up.IsConnected(nil); i++ {
			if i > 30000 {
				panic("VERIF-INFRA: UP4 full start-up did not connect within 30 s")
			}
			time.Sleep(time.Millisecond)
		}
		return e
	}
	up.SetUpfInfoNoLoop(in.u, conf)
	up.initOnce.Do(func() {})
	if cfg.EndMarker {
		up.endMarkerChan = make(chan []byte, 1024)
	}
	_, _, ready := fbFrontEnd()
	up.p4client = &P4rtClient{client: &fpClient{fp}, conn: ready, deviceID: 1, digests: make(chan *p4.DigestList, 1024), P4Info: fp.info}
	up.p4RtTranslator = newP4RtTranslator(fp.info)
	if !cfg.Down {
		if err := up.initialize(true); err != nil {
			panic("VERIF-INFRA: UP4 initialize failed: " + err.Error())
		}
		up.setConnectedStatus(true)
	}
	return e
}

// SetUpfInfoNoLoop mirrors UP4.SetUpfInfo without `go up4.keepTryingToConnect()` (fast path only; the full path
// runs the real function, and vUP4StartupConformance compares the two results field by field).
func (up4 *UP4) SetUpfInfoNoLoop(u *upf, conf *Conf) {
	up4.conf = conf.P4rtcIface
	up4.accessIP = MustParseStrIP(conf.P4rtcIface.AccessIP)
	u.accessIP = up4.accessIP.IP
	up4.ueIPPool = MustParseStrIP(conf.CPIface.UEIPPool)
	up4.reportNotifyChan = u.reportNotifyChan
	u.coreIP = net.ParseIP(net.IPv4zero.String())
	up4.host = conf.P4rtcIface.P4rtcServer + ":" + conf.P4rtcIface.P4rtcPort
	up4.deviceID = 1
	up4.timeout = 30
	up4.enableEndMarker = conf.EnableEndMarker
	up4.initTunnelPeerIDs()
	up4.initApplicationIDs()
	up4.meters = make(map[meterID]meter)
	up4.ueAddrToFSEID = make(map[uint32]uint64)
	up4.fseidToUEAddr = make(map[uint64]uint32)
	up4.counters = make([]counter, 2)
}

func (e *vP4Env) close() {
	if e.in.cfg.FullStartup {
		// keepTryingToConnect never ends: park it on its own mutex for good (it holds it only inside tryConnect,
		// which returns at once while connected) so that it cannot reconnect to a later instance's switch
		e.up4.tryConnectMu.Lock()
	}
	if e.in.cfg.FullStartup && e.up4.p4client != nil && e.up4.p4client.conn != nil {
		if e.up4.p4client.stream != nil {
			e.up4.p4client.stream.CloseSend()
		}
		e.up4.p4client.conn.Close()
	}
}

func (e *vP4Env) nwrites() int {
	e.fp.mu.Lock()
	defer e.fp.mu.Unlock()
	return e.fp.nwrite
}

func (e *vP4Env) takePacketOuts() [][]byte {
	var out [][]byte
	if e.up4.endMarkerChan != nil {
		for {
			select {
			case b := <-e.up4.endMarkerChan:
				out = append(out, append([]byte{}, b...))
				continue
			default:
			}
			break
		}
	}
	e.fp.mu.Lock()
	out = append(out, e.fp.pktOuts...)
	e.fp.pktOuts = nil
	e.fp.mu.Unlock()
	return out
}

// pools is the in-package view of the five ID pools and the bookkeeping maps.
type up4Pools struct {
	Counters, AppMeters, SessMeters []uint64
	Peers, Apps                     []uint64
	Meters                          int
	UEMap, FSEIDMap                 int
	PeerRefs, AppRefs               []int
}

func setToSlice(s set.Set) []uint64 {
	var out []uint64
	if s == nil {
		return out
	}
	for _, v := range s.ToSlice() {
		switch x := v.(type) {
		case uint64:
			out = append(out, x)
		case uint32:
			out = append(out, uint64(x))
		}
	}
	sort.Slice(out, func(i, j int) bool { return out[i] < out[j] })
	return out
}

func (e *vP4Env) pools() up4Pools {
	u := e.up4
	p := up4Pools{Meters: len(u.meters), UEMap: len(u.ueAddrToFSEID), FSEIDMap: len(u.fseidToUEAddr)}
	if len(u.counters) > 0 {
		p.Counters = setToSlice(u.counters[preQosCounterID].counterIDsPool)
	}
	p.AppMeters, p.SessMeters = setToSlice(u.appMeterCellIDsPool), setToSlice(u.sessMeterCellIDsPool)
	for _, v := range u.tunnelPeerIDsPool {
		p.Peers = append(p.Peers, uint64(v))
	}
	for _, v := range u.applicationIDsPool {
		p.Apps = append(p.Apps, uint64(v))
	}
	for _, t := range u.tunnelPeerIDs {
		p.PeerRefs = append(p.PeerRefs, t.usedBy.Cardinality())
	}
	for _, a := range u.applicationIDs {
		p.AppRefs = append(p.AppRefs, a.usedBy.Cardinality())
	}
	sort.Ints(p.PeerRefs)
	sort.Ints(p.AppRefs)
	return p
}

// digest renders switch state + plug-in bookkeeping with agent-chosen identifiers renamed (for the state key).
func (e *vP4Env) digest(rn *vRenamer) string {
	idmap := map[string]map[uint64]string{"ctr": {}, "am": {}, "sm": {}, "peer": {}, "app": {}}
	name := func(kind string, v uint64) string {
		if v == 0 && kind != "ctr" { // 0 = none for meters, peers, applications; a legal index for counters
			return "0"
		}
		m := idmap[kind]
		if n, ok := m[v]; ok {
			return n
		}
		m[v] = fmt.Sprintf("%s%d", kind, len(m))
		return m[v]
	}
	var lines []string
	for _, t := range fpSessionTables {
		es := e.fp.list(t)
		// order by content that does not depend on renamable identifiers, then rename in that order
		sort.SliceStable(es, func(i, j int) bool { return e.stableKey(es[i], rn) < e.stableKey(es[j], rn) })
		for _, x := range es {
			var ms, ps []string
			for k, m := range x.Match {
				v := fmt.Sprintf("%x/%x/%d", m.Val, m.Mask, m.Plen)
				switch k {
				case "ue_address":
					v = rn.U(uint32(m.Val))
				case "teid":
					v = rn.T(uint32(m.Val))
				case "app_id":
					v = name("app", m.Val)
				case "tunnel_peer_id":
					v = name("peer", m.Val)
				}
				ms = append(ms, k+"="+v)
			}
			for k, v := range x.Params {
				s := fmt.Sprintf("%x", v)
				switch k {
				case "ctr_idx":
					s = name("ctr", v)
				case "app_meter_idx":
					s = name("am", v)
				case "session_meter_idx":
					s = name("sm", v)
				case "tunnel_peer_id":
					s = name("peer", v)
				case "app_id":
					s = name("app", v)
				case "teid":
					s = rn.T(uint32(v))
				}
				ps = append(ps, k+"="+s)
			}
			sort.Strings(ms)
			sort.Strings(ps)
			lines = append(lines, fmt.Sprintf("E %s[%s]p%d->%s(%s)", x.Table, strings.Join(ms, ","), x.Prio, x.Action, strings.Join(ps, ",")))
		}
	}
	for _, mn := range []string{"app_meter", "session_meter", "slice_tc_meter"} {
		cells := e.fp.meterCells(mn)
		var ks []int64
		for k := range cells {
			ks = append(ks, k)
		}
		sort.Slice(ks, func(i, j int) bool { return ks[i] < ks[j] })
		var vals []string
		for _, k := range ks {
			c := cells[k]
			vals = append(vals, fmt.Sprintf("%d/%d/%d/%d", c.Cir, c.Cburst, c.Pir, c.Pburst))
		}
		sort.Strings(vals)
		lines = append(lines, fmt.Sprintf("M %s %v", mn, vals))
	}
	p := e.pools()
	lines = append(lines, fmt.Sprintf("pools ctr=%d am=%d sm=%d peers=%d apps=%d meters=%d uemap=%d/%d peerrefs=%v apprefs=%v conn=%v",
		len(p.Counters), len(p.AppMeters), len(p.SessMeters), len(p.Peers), len(p.Apps), p.Meters, p.UEMap, p.FSEIDMap, p.PeerRefs, p.AppRefs, e.up4.connected))
	return strings.Join(lines, "\n") + "\n"
}

func (e *vP4Env) stableKey(x *fpEntry, rn *vRenamer) string {
	var ms []string
	for k, m := range x.Match {
		switch k {
		case "app_id", "tunnel_peer_id":
			continue
		case "ue_address":
			ms = append(ms, k+"="+rn.U(uint32(m.Val)))
		case "teid":
			ms = append(ms, k+"="+rn.T(uint32(m.Val)))
		default:
			ms = append(ms, fmt.Sprintf("%s=%x/%x/%d", k, m.Val, m.Mask, m.Plen))
		}
	}
	sort.Strings(ms)
	var ps []string
	for k, v := range x.Params {
		switch k {
		case "ctr_idx", "app_meter_idx", "session_meter_idx", "tunnel_peer_id", "app_id":
			continue
		case "teid":
			ps = append(ps, k+"="+rn.T(uint32(v)))
		default:
			ps = append(ps, fmt.Sprintf("%s=%x", k, v))
		}
	}
	sort.Strings(ps)
	return fmt.Sprintf("%s|%s|%d|%s|%s", x.Table, strings.Join(ms, ","), x.Prio, x.Action, strings.Join(ps, ","))
}

// vUP4StartupConformance builds one UP4 instance through the fast assembly and one through the real SetUpfInfo /
// keepTryingToConnect / tryConnect over gRPC, with the same configuration, and returns the names of the UP4 (and upf)
// fields in which the two differ. Fields that are per-instance by nature are skipped.
func vUP4StartupConformance() (diff []string) {
	skip := map[string]bool{"p4client": true, "connectedMu": true, "initOnce": true, "tryConnectMu": true,
		"tunnelPeerMu": true, "applicationMu": true, "programMu": true, "p4RtTranslator": true, "endMarkerChan": true,
		"reportNotifyChan": true, "host": true, "conf": true}
	snap := func(full bool) map[string]any {
		in := newVInst(vCfg{P4: true, NConns: 1, UEIPAlloc: true, Pool: "10.250.0.0/29", EndMarker: true, FullStartup: full,
			P4Conf: &vP4Cfg{SliceID: 3, DefaultTC: 2, QFIToTC: map[uint8]uint8{9: 1}}})
		defer in.close()
		out := map[string]any{}
		v := reflect.ValueOf(in.p4.up4).Elem()
		for i := 0; i < v.NumField(); i++ {
			name := v.Type().Field(i).Name
			if skip[name] {
				continue
			}
			out["UP4."+name] = reflect.NewAt(v.Field(i).Type(), unsafe.Pointer(v.Field(i).UnsafeAddr())).Elem().Interface()
		}
		c := in.p4.up4.conf
		c.P4rtcServer, c.P4rtcPort = "", ""
		out["UP4.conf"] = c
		out["upf.accessIP"], out["upf.coreIP"] = in.u.accessIP.String(), in.u.coreIP.String()
		out["switch contents after start-up"] = in.p4.digest(&vRenamer{seid: map[uint64]string{}, teid: map[uint32]string{}, ue: map[uint32]string{}})
		return out
	}
	a, b := snap(false), snap(true)
	for k, va := range a {
		if !reflect.DeepEqual(va, b[k]) {
			diff = append(diff, fmt.Sprintf("%s: fast=%v full=%v", k, va, b[k]))
		}
	}
	sort.Strings(diff)
	return diff
}
