//go:build verif

package pfcpiface

// placeholder until the fake P4Runtime switch is written
type vP4Cfg struct{}
type vP4Env struct{}

func newVP4Env(in *vInst, conf *Conf) *vP4Env { panic("UP4 harness not built yet") }
func (e *vP4Env) close()                      {}
func (e *vP4Env) nwrites() int                { return 0 }
func (e *vP4Env) digest(rn *vRenamer) string  { return "" }
func (e *vP4Env) takePacketOuts() [][]byte    { return nil }
