//go:build verif

// C09 - QoS is enforced as signalled; the session-wide limiter is chosen soundly. Engine ENUM/SEQ on real instances:
// (A) the full product of a QER value lattice x burst configurations is established and the programmed Qos entries are
// compared with the statement's arithmetic; (B) every assignment of ordered QER lists to 1-3 PDRs over 1-3 QERs, followed
// by every modification sequence of depth <= 2 that creates or updates QERs, is checked for the limiter rules.
package pfcpiface

import (
	"encoding/json"
	"fmt"
	"math/big"
	"testing"

	"github.com/wmnsk/go-pfcp/ie"
)

type c09Cfg struct {
	Name string         `json:"name"`
	Qci  []QciQosConfig `json:"qci"`
}

var c09Cfgs = []c09Cfg{
	{"builtin-default", nil},
	{"default+q9", []QciQosConfig{{QCI: 0, CBS: 50000, PBS: 60000, EBS: 40000, BurstDurationMs: 10}, {QCI: 9, CBS: 2048, PBS: 4096, EBS: 3000, BurstDurationMs: 1000}}},
	{"dur0+q5", []QciQosConfig{{QCI: 0, CBS: 1, PBS: 3, EBS: 2, BurstDurationMs: 0}, {QCI: 5, CBS: 7, PBS: 9, EBS: 8, BurstDurationMs: 1}}},
	{"q63", []QciQosConfig{{QCI: 63, CBS: 100, PBS: 300, EBS: 200, BurstDurationMs: 1000}, {QCI: 200, CBS: 5, PBS: 5, EBS: 5, BurstDurationMs: 10}}},
}

// c09QosFor mirrors the statement: the operator-configured entry of the QFI, else the default entry (QFI 0), else the
// documented built-in default.
func c09QosFor(cfg c09Cfg, qfi uint8) QciQosConfig {
	var def *QciQosConfig
	for i := range cfg.Qci {
		if cfg.Qci[i].QCI == qfi {
			return cfg.Qci[i]
		}
		if cfg.Qci[i].QCI == 0 {
			def = &cfg.Qci[i]
		}
	}
	if def != nil {
		return *def
	}
	return QciQosConfig{CBS: DefaultBurstSize, PBS: DefaultBurstSize, EBS: DefaultBurstSize, BurstDurationMs: 10}
}

// floor(rateKbps * 125 * ms / 1000), exact
func c09Burst(kbps uint64, ms uint32) uint64 {
	x := new(big.Int).SetUint64(kbps)
	x.Mul(x, big.NewInt(125)).Mul(x, big.NewInt(int64(ms))).Div(x, big.NewInt(1000))
	return x.Uint64()
}

// c09CheckEntry checks one direction's entry of one QER against the statement.
func c09CheckEntry(e *fbQER, q *sQER, uplink bool, cfg c09Cfg) string {
	gateClosed, mbr, gbr := q.GateDL != 0, q.MBRDL, q.GBRDL
	if uplink {
		gateClosed, mbr, gbr = q.GateUL != 0, q.MBRUL, q.GBRUL
	}
	if q.NoMBR {
		mbr = 0
	}
	if !q.HasGBR {
		gbr = 0
	}
	if gateClosed {
		if e.Gate != qerGateStatusDrop {
			return fmt.Sprintf("gate closed but datapath gate is %d", e.Gate)
		}
		return ""
	}
	if e.Gate == qerGateStatusDrop {
		return "gate open but the datapath drops the direction"
	}
	if mbr == 0 && gbr == 0 {
		if e.Gate != qerGateUnmeter {
			return fmt.Sprintf("both rates zero but gate is %d (not unmetered)", e.Gate)
		}
		return ""
	}
	if gbr > mbr {
		return "" // outside the statement's envelope
	}
	if e.Gate != qerGateMeter {
		return fmt.Sprintf("rates signalled but gate is %d (not metered)", e.Gate)
	}
	if e.Pir != mbr*125 {
		return fmt.Sprintf("PIR %d, MBR x 125 = %d", e.Pir, mbr*125)
	}
	wantCir := gbr * 125
	if wantCir < 1 {
		wantCir = 1
	}
	if e.Cir != wantCir {
		return fmt.Sprintf("CIR %d, max(GBR x 125, 1) = %d", e.Cir, wantCir)
	}
	qc := c09QosFor(cfg, q.QFI)
	if min := maxUint64(c09Burst(gbr, qc.BurstDurationMs), uint64(qc.CBS)); e.Cbs < min {
		return fmt.Sprintf("CBS %d below max(rate x duration, configured cbs) = %d", e.Cbs, min)
	}
	if min := maxUint64(c09Burst(mbr, qc.BurstDurationMs), uint64(qc.PBS)); e.Pbs < min {
		return fmt.Sprintf("PBS %d below max(rate x duration, configured pbs) = %d", e.Pbs, min)
	}
	if min := maxUint64(c09Burst(mbr, qc.BurstDurationMs), uint64(qc.EBS)); e.Ebs < min {
		return fmt.Sprintf("EBS %d below max(rate x duration, configured ebs) = %d", e.Ebs, min)
	}
	return ""
}

// c09Entries returns the (uplink, downlink) entries of QER q of session s in whichever table holds them, and the table.
func c09Entries(fb *fakeBESS, upseid uint64, qerID uint32) (ul, dl *fbQER, table string) {
	for _, e := range fb.qosList(AppQerLookup) {
		if len(e.Fields) == 3 && e.Fields[1] == uint64(qerID) && e.Fields[2] == upseid {
			if e.Fields[0] == access {
				ul = e
			} else if e.Fields[0] == core {
				dl = e
			}
			table = AppQerLookup
		}
	}
	return
}

func c09SessEntries(fb *fakeBESS, upseid uint64) (ul, dl *fbQER) {
	for _, e := range fb.qosList(SessQerLookup) {
		if len(e.Fields) == 2 && e.Fields[1] == upseid {
			if e.Fields[0] == access {
				ul = e
			} else if e.Fields[0] == core {
				dl = e
			}
		}
	}
	return
}

type c09Case struct {
	Part string    `json:"part"`
	Cfg  c09Cfg    `json:"cfg"`
	QER  *sQER     `json:"qer,omitempty"`
	Est  *sessReq  `json:"est,omitempty"`
	Mods []sessReq `json:"mods,omitempty"`
	Upd  []sQER    `json:"upd,omitempty"`  // part C: the successive Update QERs
	With bool      `json:"with,omitempty"` // part C: next to a second QER (session level)
}

func c09Values() []uint64 { return []uint64{0, 1, 7, 8, 9, 1 << 20, 1 << 32, 1<<40 - 1} }

// ---- part A: one QER under test, alone (application level) and next to a small one (so that it can become session level)
func c09PartA(res *vResult, cfg c09Cfg, only *c09Case) {
	in := newVInst(vCfg{NConns: 1, QciQos: cfg.Qci})
	defer in.close()
	sys := &sessSys{ex: &seqExplorer{res: res}, res: res, in: in, m: newRefAgent(1)}
	sys.exec(&sessReq{sReq: sReq{Kind: kAssoc, Conn: 0}})
	run := func(q sQER, withSmall bool) {
		cs := c09Case{Part: "A", Cfg: cfg, QER: &q}
		res.journal(cs)
		p, f, _ := rsBasic("16.0.0.1", 0x100, "11.1.1.129")
		qs := []sQER{q}
		p[0].QERs, p[1].QERs = []uint32{q.ID}, []uint32{q.ID}
		if withSmall {
			qs = append(qs, sQER{ID: 2, QFI: q.QFI, MBRUL: 0, MBRDL: 0})
			p[0].QERs, p[1].QERs = []uint32{2, q.ID}, []uint32{q.ID, 2}
		}
		ctx := sys.exec(&sessReq{sReq: sReq{Kind: kEst, Conn: 0, CPSEID: 1, CreatePDR: p, CreateFAR: f, CreateQER: qs}})
		res.Evaluations++
		if ctx.pframe != "" {
			res.finding("c09:panic:"+ctx.pframe, ctx.pmsg, cs)
			return
		}
		if !ctx.accepted || ctx.newSess == nil {
			res.finding("c09:est-rejected", fmt.Sprintf("establishment with QER %+v rejected", q), cs)
			return
		}
		up := ctx.newSess.UPSEID
		ul, dl, tbl := c09Entries(in.fb, up, q.ID)
		if ul == nil && dl == nil {
			ul, dl = c09SessEntries(in.fb, up)
			tbl = SessQerLookup
		}
		res.outcome("table=" + tbl)
		switch {
		case ul == nil || dl == nil:
			res.finding("c09:entry-missing", fmt.Sprintf("QER %+v: uplink entry %v, downlink entry %v", q, ul != nil, dl != nil), cs)
		default:
			if v := c09CheckEntry(ul, &q, true, cfg); v != "" {
				res.finding("c09:value-ul:"+c09Class(v), fmt.Sprintf("QER %+v (cfg %s, %s) uplink: %s", q, cfg.Name, tbl, v), cs)
			}
			if v := c09CheckEntry(dl, &q, false, cfg); v != "" {
				res.finding("c09:value-dl:"+c09Class(v), fmt.Sprintf("QER %+v (cfg %s, %s) downlink: %s", q, cfg.Name, tbl, v), cs)
			}
			if tbl == AppQerLookup && (len(ul.Values) != 1 || ul.Values[0] != uint64(q.QFI)) {
				res.finding("c09:qfi", fmt.Sprintf("QER %+v: QFI value in the entry is %v", q, ul.Values), cs)
			}
		}
		res.Distinct++
		res.States++
		sys.exec(&sessReq{sReq: sReq{Kind: kDel, Conn: 0}, Sess: ctx.newSess.Idx})
	}
	defer func() { res.Transitions += int64(sys.steps); res.Traces += int64(sys.steps) }()
	if only != nil {
		run(*only.QER, false)
		run(*only.QER, true)
		return
	}
	vals := c09Values()
	item := 0
	qfis := []uint8{0, 5, 9, 63, 200}
	if vEnv.Thorough {
		qfis = nil
		for q := 0; q < 64; q++ {
			qfis = append(qfis, uint8(q))
		}
		qfis = append(qfis, 200, 255)
	}
	for _, qfi := range qfis {
		for _, mul := range vals {
			for _, mdl := range []uint64{mul, vals[(len(vals)+3)%len(vals)], 12345} {
				for gi, gul := range append([]uint64{0}, vals...) {
					if gul > mul {
						continue
					}
					for g := 0; g < 4; g++ {
						item++
						if !vMine(item) {
							continue
						}
						gdl := gul
						if gdl > mdl {
							gdl = mdl
						}
						q := sQER{ID: 1, QFI: qfi, GateUL: uint8(g & 1), GateDL: uint8(g >> 1), MBRUL: mul, MBRDL: mdl, HasGBR: gi > 0, GBRUL: gul, GBRDL: gdl}
						run(q, false)
						run(q, true)
					}
				}
			}
		}
	}
}

func c09Class(v string) string {
	for i := 0; i < len(v); i++ {
		if v[i] == ' ' {
			return v[:i]
		}
	}
	return v
}

// ---- part B: limiter choice
func c09Lists(ids []uint32) [][]uint32 {
	var out [][]uint32
	var rec func(cur []uint32, used map[uint32]bool)
	rec = func(cur []uint32, used map[uint32]bool) {
		if len(cur) > 0 {
			out = append(out, append([]uint32{}, cur...))
		}
		for _, id := range ids {
			if !used[id] {
				used[id] = true
				rec(append(cur, id), used)
				used[id] = false
			}
		}
	}
	rec(nil, map[uint32]bool{})
	return out
}

var c09Rates = map[uint32]uint64{1: 1000, 2: 2000, 3: 3000, 5: 500, 6: 6000, 9: 9000}

func c09QER(id uint32) sQER { return sQER{ID: id, QFI: 9, MBRUL: c09Rates[id], MBRDL: c09Rates[id]} }

// c09Limiter identifies, from the datapath alone, which QER the session table entry of the session carries (by its rates).
func c09Limiter(fb *fakeBESS, s *rSess) (id uint32, present bool) {
	ul, _ := c09SessEntries(fb, s.UPSEID)
	if ul == nil {
		return 0, false
	}
	for _, q := range s.QERs {
		if ul.Pir == q.MBRUL*125 && ul.Gate == qerGateMeter {
			return q.ID, true
		}
	}
	return 0, true
}

func c09CheckLimiter(sys *sessSys, s *rSess, prev *uint32, touched map[uint32]bool, label string, cs c09Case) bool {
	res, fb := sys.res, sys.in.fb
	id, present := c09Limiter(fb, s)
	nonApp := 0
	for _, q := range s.QERs {
		if ul, dl, _ := c09Entries(fb, s.UPSEID, q.ID); ul == nil && dl == nil {
			nonApp++
		}
	}
	if nonApp > 1 {
		res.finding("c09:limiter-more-than-one:"+label, fmt.Sprintf("%d QERs of the session are treated as session-wide (not in the application table)", nonApp), cs)
		return false
	}
	if nonApp == 1 && !present {
		res.finding("c09:qer-lost:"+label, "a QER is in neither QER table", cs)
		return false
	}
	if present {
		if id == 0 {
			res.finding("c09:limiter-unknown-rates:"+label, "the session table entry carries the rates of no QER of the session", cs)
			return false
		}
		for _, p := range s.PDRs {
			ref := false
			for _, q := range p.QERs {
				if q == id {
					ref = true
				}
			}
			if !ref {
				res.finding("c09:limiter-not-in-every-pdr:"+label, fmt.Sprintf("QER %d is the session-wide limiter but PDR %d (QER list %v) does not reference it", id, p.ID, p.QERs), cs)
				return false
			}
		}
		if nonApp == 0 {
			res.finding("c09:limiter-also-app:"+label, fmt.Sprintf("QER %d is programmed in both QER tables", id), cs)
			return false
		}
	}
	if prev != nil && *prev != 0 && !touched[*prev] {
		if !present || id != *prev {
			res.finding("c09:limiter-relabelled:"+label, fmt.Sprintf("QER %d was the session-wide limiter; after creating/updating other QERs the session entry carries QER %d (present=%v)", *prev, id, present), cs)
			return false
		}
	}
	if prev != nil {
		*prev = id
	}
	return true
}

func c09PartB(res *vResult, only *c09Case) {
	cfg := c09Cfgs[0]
	in := newVInst(vCfg{NConns: 1})
	defer in.close()
	sys := &sessSys{ex: &seqExplorer{res: res}, res: res, in: in, m: newRefAgent(1)}
	sys.exec(&sessReq{sReq: sReq{Kind: kAssoc, Conn: 0}})
	runCase := func(est sessReq, mods []sessReq) {
		cs := c09Case{Part: "B", Cfg: cfg, Est: &est, Mods: mods}
		res.journal(cs)
		res.Evaluations++
		ctx := sys.exec(&est)
		if ctx.pframe != "" {
			res.finding("c09:panic:"+ctx.pframe, ctx.pmsg, cs)
			return
		}
		if !ctx.accepted || ctx.newSess == nil {
			res.finding("c09:est-rejected", "establishment of part B rejected", cs)
			return
		}
		s := ctx.newSess
		var prev uint32
		ok := c09CheckLimiter(sys, s, &prev, nil, "est", cs)
		res.outcome(fmt.Sprintf("limiter=%v", prev != 0))
		for _, m := range mods {
			if !ok {
				break
			}
			m.Sess = s.Idx
			touched := map[uint32]bool{}
			for _, q := range m.UpdateQER {
				touched[q.ID] = true
			}
			for _, q := range m.RemoveQER {
				touched[q] = true
			}
			if len(m.UpdatePDR)+len(m.CreatePDR)+len(m.RemovePDR) > 0 {
				touched[prev] = true // the PDRs' lists change: the limiter may legitimately change
			}
			mc := sys.exec(&m)
			if mc.pframe != "" {
				res.finding("c09:panic:"+mc.pframe, mc.pmsg, cs)
				break
			}
			if !mc.accepted {
				break
			}
			ok = c09CheckLimiter(sys, s, &prev, touched, m.Label, cs)
			res.States++
		}
		res.Distinct++
		res.States++
		sys.exec(&sessReq{sReq: sReq{Kind: kDel, Conn: 0}, Sess: s.Idx})
	}
	defer func() { res.Transitions += int64(sys.steps); res.Traces += int64(sys.steps) }()
	if only != nil {
		runCase(*only.Est, only.Mods)
		return
	}
	mkEst := func(lists [][]uint32, qers []uint32, gbr uint32) sessReq {
		var pdrs []sPDR
		for i, l := range lists {
			src := uint8(ie.SrcInterfaceAccess)
			if i%2 == 1 {
				src = ie.SrcInterfaceCore
			}
			p := sPDR{ID: uint16(i + 1), Prec: uint32(100 + i), Src: src, UEIP: "16.0.0.1", FAR: 1, QERs: l}
			if src == ie.SrcInterfaceAccess {
				p.FTEID = &sFTEID{TEID: uint32(0x100 + i), IP: vN3Addr}
				p.Decap = true
			} else {
				p.SDF = fmt.Sprintf("permit out udp from 10.%d.0.0/16 to assigned", i)
			}
			pdrs = append(pdrs, p)
		}
		var qs []sQER
		for _, id := range qers {
			q := c09QER(id)
			if id == gbr {
				q.HasGBR, q.GBRUL, q.GBRDL = true, 10, 10
			}
			qs = append(qs, q)
		}
		return sessReq{sReq: sReq{Kind: kEst, Conn: 0, CPSEID: 1, CreatePDR: pdrs, CreateFAR: []sFAR{{ID: 1, Action: ActionDrop}}, CreateQER: qs}, Label: "est"}
	}
	mods := func() [][]sessReq {
		single := []sessReq{
			{sReq: sReq{Kind: kMod, Conn: 0, CreateQER: []sQER{c09QER(5)}}, Label: "create-q5"},
			{sReq: sReq{Kind: kMod, Conn: 0, CreateQER: []sQER{c09QER(5), c09QER(6)}}, Label: "create-q5-q6"},
			{sReq: sReq{Kind: kMod, Conn: 0, CreateQER: []sQER{c09QER(6), c09QER(5)}}, Label: "create-q6-q5"},
			{sReq: sReq{Kind: kMod, Conn: 0, UpdateQER: []sQER{{ID: 1, QFI: 9, MBRUL: 1111, MBRDL: 1111}}}, Label: "update-q1"},
			{sReq: sReq{Kind: kMod, Conn: 0, UpdateQER: []sQER{{ID: 2, QFI: 9, MBRUL: 2222, MBRDL: 2222}, {ID: 1, QFI: 9, MBRUL: 1111, MBRDL: 1111}}}, Label: "update-q2-q1"},
			{sReq: sReq{Kind: kMod, Conn: 0, UpdateFAR: []sFAR{{ID: 1, Action: ActionDrop, HasFwd: true}}}, Label: "update-far-only"},
			{sReq: sReq{Kind: kMod, Conn: 0, UpdateQER: []sQER{{ID: 1, QFI: 9, MBRUL: 9999, MBRDL: 9999}}}, Label: "update-q1-big"},
		}
		out := [][]sessReq{nil}
		for _, a := range single {
			out = append(out, []sessReq{a})
		}
		for _, a := range append(append([]sessReq{}, single[:4]...), single[6]) {
			for _, b := range []sessReq{single[3], single[5]} {
				out = append(out, []sessReq{a, b})
			}
		}
		return out
	}()
	item := 0
	for nq := 1; nq <= 3; nq++ {
		ids := []uint32{1, 2, 3}[:nq]
		lists := c09Lists(ids)
		for np := 1; np <= 3; np++ {
			idx := make([]int, np)
			for {
				item++
				if vMine(item) && !res.expired() {
					ls := make([][]uint32, np)
					for i := range idx {
						ls[i] = lists[idx[i]]
					}
					// modification sequences for shapes with <= 2 PDRs (and every 7th 3-PDR shape: enumerated, not sampled: the
					// index pattern is fixed), plain establishment for all
					ms := mods
					if np == 3 && item%7 != 0 && !vEnv.Thorough {
						ms = mods[:1]
					}
					for _, m := range ms {
						runCase(mkEst(ls, ids, 0), m)
					}
					if nq >= 2 {
						runCase(mkEst(ls, ids, ids[nq-1]), nil) // the QER with the largest MBR is a GBR one
					}
				}
				k := 0
				for k < np {
					idx[k]++
					if idx[k] < len(lists) {
						break
					}
					idx[k] = 0
					k++
				}
				if k == np {
					break
				}
			}
		}
	}
}

// ---- part C: update histories. A QER is established, then updated by every single-field change and every pair of them,
// then updated back; after each accepted update both directions' entries are compared with the QER as last signalled.
func c09PartC(res *vResult, cfg c09Cfg, only *c09Case) {
	in := newVInst(vCfg{NConns: 1, QciQos: cfg.Qci})
	defer in.close()
	sys := &sessSys{ex: &seqExplorer{res: res}, res: res, in: in, m: newRefAgent(1)}
	sys.exec(&sessReq{sReq: sReq{Kind: kAssoc, Conn: 0}})
	defer func() { res.Transitions += int64(sys.steps); res.Traces += int64(sys.steps) }()
	run := func(base sQER, upd []sQER, withSmall bool) {
		cs := c09Case{Part: "C", Cfg: cfg, QER: &base, Upd: upd, With: withSmall}
		res.journal(cs)
		res.Evaluations++
		p, f, _ := rsBasic("16.0.0.1", 0x100, "11.1.1.129")
		qs := []sQER{base}
		p[0].QERs, p[1].QERs = []uint32{base.ID}, []uint32{base.ID}
		if withSmall {
			qs = append(qs, sQER{ID: 2, QFI: base.QFI, MBRUL: 0, MBRDL: 0})
			p[0].QERs, p[1].QERs = []uint32{2, base.ID}, []uint32{base.ID, 2}
		}
		ctx := sys.exec(&sessReq{sReq: sReq{Kind: kEst, Conn: 0, CPSEID: 1, CreatePDR: p, CreateFAR: f, CreateQER: qs}})
		if ctx.pframe != "" {
			res.finding("c09:panic:"+ctx.pframe, ctx.pmsg, cs)
			return
		}
		if !ctx.accepted || ctx.newSess == nil {
			res.finding("c09:est-rejected", fmt.Sprintf("establishment with QER %+v rejected", base), cs)
			return
		}
		up := ctx.newSess.UPSEID
		for ui, q := range upd {
			q := q
			mc := sys.exec(&sessReq{sReq: sReq{Kind: kMod, Conn: 0, UpdateQER: []sQER{q}}, Sess: ctx.newSess.Idx})
			if mc.pframe != "" {
				res.finding("c09:panic:"+mc.pframe, mc.pmsg, cs)
				return
			}
			if !mc.accepted {
				res.finding("c09:update-rejected", fmt.Sprintf("Update QER %+v (step %d) rejected", q, ui), cs)
				break
			}
			ul, dl, tbl := c09Entries(in.fb, up, q.ID)
			if ul == nil && dl == nil {
				ul, dl = c09SessEntries(in.fb, up)
				tbl = SessQerLookup
			}
			res.outcome("update table=" + tbl)
			if ul == nil || dl == nil {
				res.finding("c09:entry-missing-after-update", fmt.Sprintf("after Update QER %+v: uplink entry %v, downlink entry %v", q, ul != nil, dl != nil), cs)
				break
			}
			bad := false
			if v := c09CheckEntry(ul, &q, true, cfg); v != "" {
				res.finding("c09:update-value-ul:"+c09Class(v), fmt.Sprintf("established %+v, Update QER %+v (step %d, %s) uplink: %s", base, q, ui, tbl, v), cs)
				bad = true
			}
			if v := c09CheckEntry(dl, &q, false, cfg); v != "" {
				res.finding("c09:update-value-dl:"+c09Class(v), fmt.Sprintf("established %+v, Update QER %+v (step %d, %s) downlink: %s", base, q, ui, tbl, v), cs)
				bad = true
			}
			if tbl == AppQerLookup && (len(ul.Values) != 1 || ul.Values[0] != uint64(q.QFI)) {
				res.finding("c09:update-qfi", fmt.Sprintf("Update QER %+v: QFI value in the entry is %v", q, ul.Values), cs)
				bad = true
			}
			res.States++
			if bad {
				break
			}
		}
		res.Distinct++
		sys.exec(&sessReq{sReq: sReq{Kind: kDel, Conn: 0}, Sess: ctx.newSess.Idx})
	}
	if only != nil {
		run(*only.QER, only.Upd, only.With)
		return
	}
	deltas := []func(q *sQER){
		func(q *sQER) { q.GateUL ^= 1 },
		func(q *sQER) { q.GateDL ^= 1 },
		func(q *sQER) { q.MBRUL += 8 },
		func(q *sQER) { q.MBRDL += 8 },
		func(q *sQER) { q.HasGBR, q.GBRUL, q.GBRDL = true, q.GBRUL+16, q.GBRDL+16 },
		func(q *sQER) { q.QFI = 5 },
	}
	item := 0
	for g := 0; g < 4; g++ {
		for _, rates := range [][2]uint64{{50000, 60000}, {0, 0}} {
			base := sQER{ID: 1, QFI: 9, GateUL: uint8(g & 1), GateDL: uint8(g >> 1), MBRUL: rates[0], MBRDL: rates[1]}
			for a := -1; a < len(deltas); a++ {
				for b := a; b < len(deltas); b++ {
					if b < 0 {
						continue
					}
					item++
					if !vMine(item) {
						continue
					}
					q := base
					if a >= 0 {
						deltas[a](&q)
					}
					if b != a {
						deltas[b](&q)
					}
					// there, unchanged once more (a repeated QER), and back
					for _, with := range []bool{false, true} {
						run(base, []sQER{q, q, base}, with)
					}
				}
			}
		}
	}
}

func TestVerifC09(t *testing.T) {
	vQuietLoggers()
	res := vNewResult()
	defer res.write(t)
	res.Rule = "(A) product of MBR {0,1,7,8,9,2^20,2^32,2^40-1} x GBR<=MBR (same set, or absent) x both gate bits x QFI {0,5,9,63,200} x 4 burst configurations, each QER alone and next to a " +
		"second one (so that it is programmed at application and at session level), uplink and downlink entries compared with the statement's arithmetic (exact rational burst); " +
		"(B) every assignment of ordered non-empty QER lists over 1-3 QERs to 1-3 PDRs (with and without a GBR QER) followed by every sequence of <=2 modifications that create or update " +
		"QERs; limiter identified from the datapath by its rates; (C) update histories: a QER (4 gate combinations x metered/unmetered, application and session level) is updated by every single change of " +
		"{uplink gate, downlink gate, MBR up, MBR down, GBR, QFI} and every pair of them, repeated unchanged, and updated back - after every update both entries are compared with the QER as last signalled. distinct_nontrivial = distinct (QER value, config) / (shape, modification sequence) cases executed"
	res.Assumptions = []string{"fake BESS Qos tables are keyed by the command's Fields", "burst sizes are required to be at least floor(rate x duration), not its ceiling"}
	if rc := vReplayCase(); rc != nil {
		var cs c09Case
		json.Unmarshal(rc, &cs)
		if cs.Part == "A" {
			c09PartA(res, cs.Cfg, &cs)
		} else if cs.Part == "C" {
			c09PartC(res, cs.Cfg, &cs)
		} else {
			c09PartB(res, &cs)
		}
		return
	}
	for _, cfg := range c09Cfgs {
		c09PartA(res, cfg, nil)
	}
	c09PartB(res, nil)
	c09PartC(res, c09Cfgs[0], nil)
	if vEnv.Thorough {
		for _, cfg := range c09Cfgs[1:] {
			c09PartC(res, cfg, nil)
		}
	}
	res.sample(map[string]any{"part": "A", "qer": sQER{ID: 1, QFI: 9, MBRUL: 1<<40 - 1, MBRDL: 12345, HasGBR: true, GBRUL: 7, GBRDL: 7}, "cfg": "default+q9"})
	res.sample(map[string]any{"part": "B", "pdr_qer_lists": [][]uint32{{3}, {1, 2, 3}}, "mods": []string{"create-q5-q6", "update-q1"}})
}
