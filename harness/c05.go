//go:build verif

// C05 - ending a session reclaims everything it ever acquired. Engine SEQ on both plug-ins: BFS over histories of
// accepted and rejected establishments / modifications followed by each of the four endings; conservation of every
// resource evaluated after every step; then attach/detach cycles beyond the smallest pool for every ending.
package pfcpiface

import (
	"strings"
	"encoding/json"
	"fmt"
	"testing"

	"github.com/prometheus/client_golang/prometheus"
	"github.com/wmnsk/go-pfcp/ie"
)

func gaugeSessions() map[string]float64 {
	out := map[string]float64{}
	mfs, err := prometheus.DefaultGatherer.Gather()
	if err != nil {
		return out
	}
	for _, mf := range mfs {
		if mf.GetName() != "pfcp_sessions" {
			continue
		}
		for _, m := range mf.Metric {
			node := ""
			for _, l := range m.Label {
				if l.GetName() == "node_id" {
					node = l.GetValue()
				}
			}
			out[node] += m.GetGauge().GetValue()
		}
	}
	return out
}

// c05Conservation: everything held equals what the live sessions of the model account for.
func c05Conservation(s *sessSys) []up4Viol {
	var out []up4Viol
	bad := func(class, f string, a ...any) { out = append(out, up4Viol{class, fmt.Sprintf(f, a...)}) }
	live := s.m.live(-1)
	// session records
	for i, c := range s.in.conns {
		n := 0
		for _, x := range live {
			if x.Conn == i {
				n++
			}
		}
		if got := len(c.pc.store.GetAllSessions()); got != n && !s.m.Gone[i] {
			bad("session-record", "association %d stores %d session record(s), %d session(s) are live", i, got, n)
		}
		if got := len(c.pc.store.GetAllSessions()); s.m.Gone[i] && got != 0 {
			bad("session-record", "association %d ended but still stores %d session record(s)", i, got)
		}
	}
	// gauge: units per CP node id
	want := map[string]float64{}
	for _, x := range live {
		want[s.m.Assoc[x.Conn]]++
	}
	got := gaugeSessions()
	for node, g := range got {
		if g != want[node] {
			bad("gauge", "pfcp_sessions{node_id=%q} = %v, %v session(s) of that node are live", node, g, want[node])
		}
	}
	for node, w := range want {
		if _, ok := got[node]; !ok && w != 0 {
			bad("gauge", "pfcp_sessions{node_id=%q} absent, %v session(s) live", node, w)
		}
	}
	// UE IP inventory and TEIDs
	nUE, nTEID := 0, 0
	for _, x := range live {
		alloc := x.GivenUE
		for _, p := range x.PDRs {
			if p.AllocUE {
				alloc = true
				x.GivenUE = true
			}
			if p.ChoseTEID {
				nTEID++
			}
		}
		if alloc {
			nUE++
		}
	}
	if p := s.in.u.ippool; p != nil {
		p.mu.Lock()
		inv := len(p.inventory)
		p.mu.Unlock()
		if inv != nUE {
			bad("ue-ip", "%d UE address(es) are held, %d live session(s) were given one", inv, nUE)
		}
	}
	g := s.in.u.fteidGenerator
	g.lock.Lock()
	used := len(g.usedMap)
	g.lock.Unlock()
	if used != nTEID {
		bad("teid", "%d UP-chosen TEID(s) are marked used, live sessions hold %d", used, nTEID)
	}
	// datapath entries
	if s.in.fb != nil {
		for _, v := range bessImageCheck(s) {
			bad("bess-"+v.class, "%s", v.desc)
			break
		}
	}
	if s.in.p4 != nil {
		for _, v := range up4ImageCheck(s) {
			bad("up4-"+v.class, "%s", v.desc)
			break
		}
		p := s.in.p4.pools()
		npdr := 0
		for _, x := range live {
			npdr += len(x.PDRs)
		}
		size := len(p.Counters)
		_ = size
		total := int(s.in.p4.counterSize())
		if len(p.Counters)+npdr != total {
			bad("up4-counter", "%d counter cells free + %d live PDRs != %d cells", len(p.Counters), npdr, total)
		}
		if len(live) == 0 {
			am, sm := s.in.p4.meterSizes()
			if len(p.AppMeters) != int(am)-1 || len(p.SessMeters) != int(sm)-1 {
				bad("up4-meter-cells", "no session is live but %d/%d application and %d/%d session meter cells are free", len(p.AppMeters), am-1, len(p.SessMeters), sm-1)
			}
			if len(p.Peers) != maxGTPTunnelPeerIDs || len(p.Apps) != maxApplicationIDs {
				bad("up4-peer-app-ids", "no session is live but %d/%d tunnel peer and %d/%d application ids are free", len(p.Peers), maxGTPTunnelPeerIDs, len(p.Apps), maxApplicationIDs)
			}
			if p.Meters != 0 || p.UEMap != 0 || p.FSEIDMap != 0 {
				bad("up4-bookkeeping", "no session is live but the plug-in keeps %d meter record(s) and %d/%d address mapping(s)", p.Meters, p.UEMap, p.FSEIDMap)
			}
		}
	}
	return out
}

func (e *vP4Env) counterSize() int64 {
	for _, c := range e.fp.info.Counters {
		if fpShort(c.Preamble.Name) == "pre_qos_counter" {
			return c.Size
		}
	}
	return 0
}

func (e *vP4Env) meterSizes() (app, sess int64) {
	for _, m := range e.fp.info.Meters {
		switch fpShort(m.Preamble.Name) {
		case "app_meter":
			app = m.Size
		case "session_meter":
			sess = m.Size
		}
	}
	return
}

func c05Alphabet(s *sessSys) []sessReq {
	var out []sessReq
	add := func(label string, r sessReq) {
		r.Label = label
		out = append(out, r)
	}
	p4 := s.in.cfg.P4
	for c := 0; c < len(s.in.conns); c++ {
		if s.m.Gone[c] || s.m.Assoc[c] == "" {
			add("assoc", sessReq{sReq: sReq{Kind: kAssoc, Conn: c}})
			continue
		}
		n := len(s.m.Sess) + s.steps // identifiers never repeat inside one history
		ue := fmt.Sprintf("16.0.%d.%d", c, 1+len(s.m.Sess))
		teid := uint32(0x100 + len(s.m.Sess))
		_ = n
		if len(s.m.live(-1)) < 2 {
			mk := func(label string, p []sPDR, f []sFAR, q []sQER) {
				add(label, sessReq{sReq: sReq{Kind: kEst, Conn: c, CPSEID: uint64(10 + len(s.m.Sess)), CreatePDR: p, CreateFAR: f, CreateQER: q}})
			}
			p, f, q := up4RuleSet(ue, teid, c04Peers[0], "", 1, 0)
			mk("est-basic", p, f, q)
			if c == 0 {
				p, f, q = up4RuleSet(ue, teid, c04Peers[1], c04SDFs[0], 2, 0)
				mk("est-sdf-2qer", p, f, q)
				if s.in.cfg.UEIPAlloc {
					// UP-chosen TEID and UP-allocated UE address
					p, f, q = up4RuleSet("", 0, c04Peers[0], "", 1, 0)
					p[0].FTEID, p[0].UEIP = &sFTEID{Choose: true}, ""
					p[1].UEIP, p[1].UEAlloc = "", true
					if p4 {
						p[0].UEIP = "" // the uplink rule learns the address from the downlink one
					}
					mk("est-choose-alloc", p, f, q)
					// a default and a dedicated downlink flow, both asking the UP for the (one) UE address
					p3 := append(append([]sPDR{}, p...), sPDR{ID: 5, Prec: 60, Src: ie.SrcInterfaceCore, UEAlloc: true, SDF: "permit out udp from 10.7.0.0/16 5000 to assigned", FAR: 2, QERs: p[1].QERs})
					mk("est-choose-alloc-two-dl", p3, f, q)
					if p4 {
						// the datapath refuses an establishment that has already taken a UE address and a TEID
						add("est-choose-alloc-write1-fails", sessReq{sReq: sReq{Kind: kEst, Conn: c, CPSEID: uint64(10 + len(s.m.Sess)), CreatePDR: p, CreateFAR: f, CreateQER: q}, FailAt: 1})
					}
					// rejected after the UE address was allocated and the TEID chosen: a later PDR is refused
					p2 := append(append([]sPDR{}, p...), sPDR{ID: 9, Prec: 10, Src: ie.SrcInterfaceCore, UEIP: "16.9.9.9", BadSDF: true, FAR: 2})
					mk("est-choose-alloc-rejected", p2, f, q)
				}
				if p4 {
					// rejected because the k-th datapath write fails
					for _, k := range []int{1, 4, 7} {
						p, f, q = up4RuleSet(ue, teid, c04Peers[1], c04SDFs[0], 1, 0)
						add(fmt.Sprintf("est-write%d-fails", k), sessReq{sReq: sReq{Kind: kEst, Conn: c, CPSEID: uint64(10 + len(s.m.Sess)), CreatePDR: p, CreateFAR: f, CreateQER: q}, FailAt: k + 1})
					}
				}
				// an establishment whose second PDR is refused
				p, f, q = up4RuleSet(ue, teid, c04Peers[0], "", 1, 0)
				p = append(p, sPDR{ID: 9, Prec: 10, Src: ie.SrcInterfaceCore, UEIP: ue, BadSDF: true, FAR: 2})
				mk("est-rejected-bad-pdr", p, f, q)
			}
		}
		for _, x := range s.m.live(c) {
			add("del", sessReq{sReq: sReq{Kind: kDel, Conn: c}, Sess: x.Idx})
			if p4 && c == 0 {
				// a deletion the datapath refuses (its first write fails): the session stays, and so does everything it holds
				add("del-write1-fails", sessReq{sReq: sReq{Kind: kDel, Conn: c}, Sess: x.Idx, FailAt: 1})
			}
			add("srr-context-not-found", sessReq{sReq: sReq{Kind: kSRR, Conn: c, Cause: ie.CauseSessionContextNotFound}, Sess: x.Idx})
			if c == 0 {
				if f := x.far(2); f != nil && f.OHCTEID != 0x7001 && f.OHCIP != "" {
					add("mod-ufar", sessReq{sReq: sReq{Kind: kMod, Conn: c, UpdateFAR: []sFAR{{ID: 2, Action: ActionForward, HasFwd: true, HasDst: true, Dst: ie.DstInterfaceAccess, OHCIP: f.OHCIP, OHCTEID: 0x7001}}}, Sess: x.Idx})
				}
				add("mod-rejected-remove-unknown", sessReq{sReq: sReq{Kind: kMod, Conn: c, RemovePDR: []uint16{99}}, Sess: x.Idx})
				if p1 := x.pdr(1); p1 != nil && !p4 && s.in.cfg.UEIPAlloc && x.pdr(8) == nil {
					// a refused modification whose Create PDR asks the UP to choose a tunnel endpoint: whatever was taken for it
					// (nothing on the pinned tree, which allocates in establishments only) must be given back
					add("mod-create-choose-pdr-refused", sessReq{sReq: sReq{Kind: kMod, Conn: c, CreatePDR: []sPDR{{ID: 8, Prec: 90, Src: ie.SrcInterfaceAccess, FTEID: &sFTEID{Choose: true}, UEIP: p1.UEIP, Decap: true, FAR: 1, QERs: p1.QERs}}, RemovePDR: []uint16{99}}, Sess: x.Idx})
				}
				if p2 := x.pdr(2); p2 != nil && p2.AllocUE && p2.UE != 0 {
					// the control plane repeats the address the UP allocated, explicitly, in an Update PDR
					up := p2.sPDR
					up.UEAlloc, up.UEIP = false, int2ip(p2.UE).String()
					add("mod-updr-explicit-ue", sessReq{sReq: sReq{Kind: kMod, Conn: c, UpdatePDR: []sPDR{up}}, Sess: x.Idx})
				}
				if p2 := x.pdr(2); p2 != nil && p2.AllocUE && p2.UE != 0 {
					// refused modifications that ask for the (sticky) UP-side address again before the rule fails to parse: the
					// address of the living session stays taken
					add("mod-rejected-create-alloc-pdr-bad-sdf", sessReq{sReq: sReq{Kind: kMod, Conn: c, CreatePDR: []sPDR{{ID: 9, Prec: 10, Src: ie.SrcInterfaceCore, UEAlloc: true, BadSDF: true, FAR: 2}}}, Sess: x.Idx})
					up := p2.sPDR
					up.BadSDF = true
					add("mod-rejected-update-alloc-pdr-bad-sdf", sessReq{sReq: sReq{Kind: kMod, Conn: c, UpdatePDR: []sPDR{up}}, Sess: x.Idx})
				}
				if p1 := x.pdr(1); p1 != nil && p1.ChoseTEID {
					add("mod-remove-choose-pdr", sessReq{sReq: sReq{Kind: kMod, Conn: c, RemovePDR: []uint16{1}}, Sess: x.Idx})
					add("mod-rejected-remove-choose-pdr-then-unknown-far", sessReq{sReq: sReq{Kind: kMod, Conn: c, RemovePDR: []uint16{1}, RemoveFAR: []uint32{99}}, Sess: x.Idx})
				}
				// whatever a modification acquired, or left referenced, must be reclaimed by the ending as well
				if f := x.far(2); f != nil && f.Action == ActionForward && f.OHCIP != "" {
					// idle transition as some control planes send it: buffer, tunnel parameters still carried
					add("mod-ufar-buffer-keep-tunnel", sessReq{sReq: sReq{Kind: kMod, Conn: c, UpdateFAR: []sFAR{{ID: 2, Action: ActionBuffer | ActionNotify, HasFwd: true, HasDst: true, Dst: ie.DstInterfaceAccess, OHCIP: f.OHCIP, OHCTEID: f.OHCTEID}}}, Sess: x.Idx})
					add("mod-ufar-buffer", sessReq{sReq: sReq{Kind: kMod, Conn: c, UpdateFAR: []sFAR{{ID: 2, Action: ActionBuffer | ActionNotify, HasFwd: true}}}, Sess: x.Idx})
					add("mod-ufar-drop-keep-tunnel", sessReq{sReq: sReq{Kind: kMod, Conn: c, UpdateFAR: []sFAR{{ID: 2, Action: ActionDrop, HasFwd: true, HasDst: true, Dst: ie.DstInterfaceAccess, OHCIP: f.OHCIP, OHCTEID: f.OHCTEID}}}, Sess: x.Idx})
					other := c04Peers[0]
					if f.OHCIP == other {
						other = c04Peers[1]
					}
					add("mod-ufar-newpeer", sessReq{sReq: sReq{Kind: kMod, Conn: c, UpdateFAR: []sFAR{{ID: 2, Action: ActionForward, HasFwd: true, HasDst: true, Dst: ie.DstInterfaceAccess, OHCIP: other, OHCTEID: 0x7002}}}, Sess: x.Idx})
				}
				if q1, q4 := x.qer(1), x.qer(4); q1 != nil && q4 != nil && q1.MBRDL <= q4.MBRDL {
					// the flow QER's MBR is raised above the session QER's: whatever the agent then thinks of the two roles, the
					// ending must give every meter cell back to the pool it came from
					nq := *q1
					nq.MBRUL, nq.MBRDL = q4.MBRUL+50000, q4.MBRDL+50000
					add("mod-uqer-raise-flow-mbr", sessReq{sReq: sReq{Kind: kMod, Conn: c, UpdateQER: []sQER{nq}}, Sess: x.Idx})
				}
				if q4 := x.qer(4); q4 != nil && !q4.HasGBR {
					// the session-wide QER is given a guaranteed bit rate (it no longer qualifies as the limiter)
					nq := *q4
					nq.HasGBR, nq.GBRUL, nq.GBRDL = true, 1000, 1000
					add("mod-uqer-session-gets-gbr", sessReq{sReq: sReq{Kind: kMod, Conn: c, UpdateQER: []sQER{nq}}, Sess: x.Idx})
				}
				if f := x.far(2); f != nil && f.Action != ActionForward && f.OHCIP == "" {
					add("mod-ufar-resume", sessReq{sReq: sReq{Kind: kMod, Conn: c, UpdateFAR: []sFAR{{ID: 2, Action: ActionForward, HasFwd: true, HasDst: true, Dst: ie.DstInterfaceAccess, OHCIP: c04Peers[0], OHCTEID: 0x7003}}}, Sess: x.Idx})
				}
				if !p4 && x.pdr(7) == nil && len(x.PDRs) > 0 {
					// BESS: rules created and removed by modifications
					ueip := x.PDRs[len(x.PDRs)-1].UEIP
					if ueip == "" {
						ueip = int2ip(x.PDRs[len(x.PDRs)-1].UE).String()
					}
					sp := sdfPDRs(7, ueip, 0x1f0, 40, "permit out udp from 10.9.0.0/16 81 to assigned", 1, 2, nil) // a match key no other PDR has
					add("mod-create-pdrs", sessReq{sReq: sReq{Kind: kMod, Conn: c, CreatePDR: sp}, Sess: x.Idx})
				}
				if !p4 && x.pdr(7) != nil {
					add("mod-remove-pdr7", sessReq{sReq: sReq{Kind: kMod, Conn: c, RemovePDR: []uint16{7}}, Sess: x.Idx})
				}
			}
		}
		add("release", sessReq{sReq: sReq{Kind: kRel, Conn: c}})
		add("shutdown", sessReq{sReq: sReq{Kind: "shutdown", Conn: c}})
	}
	return out
}

func c05Oracle(c *stepCtx) {
	s := c.sys
	if c.pframe != "" {
		s.violation("c05:panic:"+c.pframe, "handler panicked on "+c.req.Label+": "+c.pmsg)
		return
	}
	if l := vLeakedLock(s.in.u); l != "" {
		s.violation("c05:lock-held-after-request:"+l, fmt.Sprintf("%s is still held after %s returned", l, c.req.Label))
		return
	}
	if c.req.Kind == kEst || c.req.Kind == kMod || c.req.Kind == kDel {
		s.res.outcome(fmt.Sprintf("%s-accepted=%v", c.req.Kind, c.accepted))
	}
	vs := c05Conservation(s)
	// what the agent itself keeps for the session (UE address, TEID, gauge unit, store record) is reported under its own
	// name first: the missing roll-back inside the UP4 plug-in (a recorded finding) must not hide it
	for _, v := range vs {
		if !strings.HasPrefix(v.class, "up4-") {
			s.violation("c05:"+v.class+":after="+c.req.Label, v.desc+" (after "+c.req.Label+")")
			return
		}
	}
	for _, v := range vs {
		if c.req.Kind == kEst && c.req.FailAt > 0 && !c.accepted {
			// whatever UP4 resource shows it first, the cause is one: the refused establishment is not rolled back
			v.class = "up4-failed-establishment-not-rolled-back"
		}
		s.violation("c05:"+v.class+":after="+c.req.Label, v.desc+" (after "+c.req.Label+")")
		return
	}
}

type c05Scenario struct {
	Name   string `json:"name"`
	Cfg    vCfg   `json:"cfg"`
	Cycles string `json:"cycles,omitempty"` // ending kind of an attach/detach cycle run
}

func c05Scenarios() []c05Scenario {
	return []c05Scenario{
		{Name: "bess-uealloc", Cfg: vCfg{NConns: 2, UEIPAlloc: true, Pool: "10.250.0.0/29"}},
		{Name: "up4-uealloc", Cfg: vCfg{NConns: 2, P4: true, UEIPAlloc: true, Pool: "10.250.0.0/29", P4Conf: &vP4Cfg{DefaultTC: 3, UEPool: "10.250.0.0/29"}}},
	}
}

// c05Cycles: more attach/detach cycles than the smallest pool has elements, for one ending kind.
func c05Cycles(res *vResult, sc c05Scenario, ending string) {
	cfg := sc.Cfg
	cfg.Pool = "10.250.0.0/30" // two addresses
	if cfg.P4 {
		pc := *cfg.P4Conf
		pc.CounterSize, pc.MeterSize, pc.UEPool = 4, 4, "10.250.0.0/30"
		cfg.P4Conf = &pc
	}
	cs := sc
	cs.Cycles = ending
	cs.Cfg = cfg
	ex := &seqExplorer{res: res, scenario: cs}
	s := newSessSys(ex, res, cfg, c05Alphabet)
	defer s.close()
	ex.cur = []seqOp{mkOp("cycles", ending)}
	res.journal(ex.replayCase())
	for i := 0; i < 7; i++ {
		if s.m.Gone[0] || s.m.Assoc[0] == "" {
			s.exec(&sessReq{sReq: sReq{Kind: kAssoc, Conn: 0}, Label: "assoc"})
		}
		p, f, q := up4RuleSet("", 0, c04Peers[i%2], "", 1, 0)
		p[0].FTEID, p[0].UEIP = &sFTEID{Choose: true}, ""
		p[1].UEIP, p[1].UEAlloc = "", true
		ctx := s.exec(&sessReq{sReq: sReq{Kind: kEst, Conn: 0, CPSEID: uint64(100 + i), CreatePDR: p, CreateFAR: f, CreateQER: q}, Label: "est-choose-alloc"})
		res.Evaluations++
		if ctx.pframe != "" {
			res.finding("c05:panic:"+ctx.pframe, ctx.pmsg, ex.replayCase())
			return
		}
		if !ctx.accepted || ctx.newSess == nil {
			res.finding("c05:cycles-exhausted:"+ending, fmt.Sprintf("attach/detach cycle %d (sessions ended by %s): establishment refused with cause %d - a pool of 2 UE addresses / 4 cells was exhausted by sessions that no longer exist", i+1, ending, causeOf(ctx)), ex.replayCase())
			return
		}
		switch ending {
		case "del":
			s.exec(&sessReq{sReq: sReq{Kind: kDel, Conn: 0}, Sess: ctx.newSess.Idx, Label: "del"})
		case "release":
			s.exec(&sessReq{sReq: sReq{Kind: kRel, Conn: 0}, Label: "release"})
		case "shutdown":
			s.exec(&sessReq{sReq: sReq{Kind: "shutdown", Conn: 0}, Label: "shutdown"})
		case "srr":
			s.exec(&sessReq{sReq: sReq{Kind: kSRR, Conn: 0, Cause: ie.CauseSessionContextNotFound}, Sess: ctx.newSess.Idx, Label: "srr-context-not-found"})
		}
		res.Distinct++
		res.States++
	}
	res.Transitions += int64(s.steps)
	res.Traces++
}

func causeOf(c *stepCtx) uint8 {
	if c.resp != nil {
		return c.resp.Cause
	}
	return 0
}

func TestVerifC05(t *testing.T) {
	vQuietLoggers()
	res := vNewResult()
	defer res.write(t)
	res.Rule = "both plug-ins, UE-IP allocation on: BFS (depth 5 quick / 6 thorough) over association, establishment (basic, SDF + 2 QERs, CHOOSE F-TEID + allocated UE address, two rejected variants - one after " +
		"address and TEID were taken), modification (accepted, rejected), and the four endings (Session Deletion, Association Release, Shutdown - the common tail of read timeout and heartbeat failure -, " +
		"Session Report Response 'context not found') over 2 associations x <=2 sessions; after every step: session records, pfcp_sessions gauge per node, UE address inventory, TEID used set, datapath " +
		"image (no entry of a session that no longer exists), UP4 counters / meter cells / peer and application ids / bookkeeping equal what the live sessions account for; then 7 attach/detach cycles per ending " +
		"against pools of 2 addresses / 4 cells. distinct_nontrivial = distinct canonical states + cycles"
	res.Assumptions = []string{"Shutdown() is called directly as the common tail of read timeout / heartbeat failure / stop (their triggers are C10's)", "the gauge is read from the default Prometheus gatherer; each instance registers a fresh service"}
	depth := 5
	if vEnv.Thorough {
		depth = 6
	}
	mk := func(ex *seqExplorer, sc c05Scenario) func() seqSys {
		return func() seqSys {
			s := newSessSys(ex, res, sc.Cfg, c05Alphabet, c05Oracle)
			s.poisonOnViolation = true
			return s
		}
	}
	scs := c05Scenarios()
	if rc := vReplayCase(); rc != nil {
		var c seqCase
		json.Unmarshal(rc, &c)
		var sc c05Scenario
		json.Unmarshal(c.Scenario, &sc)
		if sc.Cycles != "" {
			for _, base := range scs {
				if base.Name == sc.Name {
					c05Cycles(res, base, sc.Cycles)
				}
			}
			return
		}
		ex := &seqExplorer{res: res, scenario: sc}
		ex.mk = mk(ex, sc)
		ex.replay(c)
		return
	}
	item := 0
	for _, sc := range scs {
		sc := sc
		ex0 := &seqExplorer{res: res, scenario: sc}
		ex0.mk = mk(ex0, sc)
		probe := ex0.mk()
		probe.apply(probe.ops()[0])
		n2 := len(probe.ops())
		probe.close()
		for r := 0; r < n2; r++ {
			r := r
			if vMine(item) {
				ex := &seqExplorer{res: res, scenario: sc, depth: depth}
				ex.mk = mk(ex, sc)
				ex.prefixFilter = func(h []seqOp, i int) bool {
					switch len(h) {
					case 0:
						return i == 0
					case 1:
						return i == r
					}
					return true
				}
				ex.explore(nil)
				res.Distinct += ex.stats.States
			}
			item++
		}
		for _, ending := range []string{"del", "release", "shutdown", "srr"} {
			if vMine(item) {
				c05Cycles(res, sc, ending)
			}
			item++
		}
	}
	res.Extra["bfs_depth"] = depth
	res.sample(map[string]any{"scenario": "up4-uealloc", "history": []string{"assoc", "est-choose-alloc", "mod-ufar", "srr-context-not-found", "est-choose-alloc"}})
}
