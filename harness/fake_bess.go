//go:build verif

// Fake BESS: one object with the table semantics of the BESS modules the agent programs
// (WildcardMatch pdrLookup, ExactMatch farLookup, Qos appQERLookup/sessionQERLookup/sliceMeter), usable
// directly as pb.BESSControlClient (bulk exploration) and behind a real gRPC server (full start-up path).
package pfcpiface

import (
	"context"
	"fmt"
	"net"
	"os"
	"path/filepath"
	"sort"
	"sync"
	"time"

	pb "github.com/omec-project/upf-epc/pfcpiface/bess_pb"
	"google.golang.org/grpc"
	"google.golang.org/grpc/codes"
	"google.golang.org/grpc/connectivity"
	"google.golang.org/grpc/credentials/insecure"
	"google.golang.org/grpc/status"
	"google.golang.org/protobuf/types/known/anypb"
)

// field order of pdrLookup keys (conf/up4.bess): src_iface, tunnel_ipv4_dst, teid, src_ip, dst_ip, src_port, dst_port, proto
const (
	fbSrcIface = iota
	fbTunDst
	fbTEID
	fbSrcIP
	fbDstIP
	fbSrcPort
	fbDstPort
	fbProto
	fbNF
)

var fbFieldBits = [fbNF]uint{8, 32, 32, 32, 32, 16, 16, 8}

type fbPDR struct {
	Values, Masks [fbNF]uint64
	Priority      int64
	Gate          uint64
	PdrID, FSEID  uint64
	Ctr, Qer, Far uint64
	Epoch         int
}

type fbFAR struct {
	FarID, FSEID uint64
	Gate         uint64
	Values       []uint64 // action, tunnel type, src, dst, teid, port
	Epoch        int
}

type fbQER struct {
	Fields []uint64
	Values []uint64
	Gate   uint64
	Cir    uint64
	Pir    uint64
	Cbs    uint64
	Pbs    uint64
	Ebs    uint64
	Deduct int64
	Epoch  int
}

type fbCmd struct {
	Module, Cmd, Key string
	Epoch            int
	Err              bool
}

type fakeBESS struct {
	pb.BESSControlClient // nil: any RPC the fake does not implement panics loudly
	mu                   sync.Mutex
	pdrs                 map[string]*fbPDR
	fars                 map[string]*fbFAR
	qos                  map[string]map[string]*fbQER // module -> key -> entry
	log                  []fbCmd
	epoch                int
	ncmd                 int
	// fault injection
	deadAfter int // >=0: commands with index >= deadAfter are refused (the agent was killed at that point)
	failAt    map[int]bool
	onCmd     func() // observation hook, called at the start of every command
}

func newFakeBESS() *fakeBESS {
	return &fakeBESS{pdrs: map[string]*fbPDR{}, fars: map[string]*fbFAR{},
		qos: map[string]map[string]*fbQER{AppQerLookup: {}, SessQerLookup: {}, "sliceMeter": {}}, deadAfter: -1, failAt: map[int]bool{}}
}

func fbInts(fs []*pb.FieldData) []uint64 {
	out := make([]uint64, len(fs))
	for i, f := range fs {
		out[i] = f.GetValueInt()
	}
	return out
}

func (f *fakeBESS) ModuleCommand(ctx context.Context, in *pb.CommandRequest, _ ...grpc.CallOption) (*pb.CommandResponse, error) {
	f.mu.Lock()
	defer f.mu.Unlock()
	if f.onCmd != nil {
		f.onCmd()
	}
	idx := f.ncmd
	f.ncmd++
	rec := fbCmd{Module: in.Name, Cmd: in.Cmd, Epoch: f.epoch}
	fail := func(code codes.Code, msg string) (*pb.CommandResponse, error) {
		rec.Err = true
		f.log = append(f.log, rec)
		return nil, status.Error(code, msg)
	}
	if f.deadAfter >= 0 && idx >= f.deadAfter {
		return fail(codes.Unavailable, "agent is dead")
	}
	if f.failAt[idx] {
		return fail(codes.Unavailable, "injected failure")
	}
	if err := ctx.Err(); err != nil {
		return fail(codes.DeadlineExceeded, err.Error())
	}
	switch in.Name {
	case "pdrLookup":
		switch in.Cmd {
		case "add":
			a := &pb.WildcardMatchCommandAddArg{}
			if err := in.Arg.UnmarshalTo(a); err != nil {
				return fail(codes.InvalidArgument, err.Error())
			}
			if len(a.Values) != fbNF || len(a.Masks) != fbNF || len(a.Valuesv) != 5 {
				return fail(codes.InvalidArgument, "wrong number of fields")
			}
			e := &fbPDR{Priority: a.Priority, Gate: a.Gate, Epoch: f.epoch}
			v, m, vv := fbInts(a.Values), fbInts(a.Masks), fbInts(a.Valuesv)
			for i := 0; i < fbNF; i++ {
				if v[i]>>fbFieldBits[i] != 0 || m[i]>>fbFieldBits[i] != 0 {
					return fail(codes.InvalidArgument, "value wider than field")
				}
				e.Values[i], e.Masks[i] = v[i]&m[i], m[i]
			}
			e.PdrID, e.FSEID, e.Ctr, e.Qer, e.Far = vv[0], vv[1], vv[2], vv[3], vv[4]
			rec.Key = fmt.Sprint(e.Values, e.Masks)
			f.pdrs[rec.Key] = e
		case "delete":
			a := &pb.WildcardMatchCommandDeleteArg{}
			if err := in.Arg.UnmarshalTo(a); err != nil {
				return fail(codes.InvalidArgument, err.Error())
			}
			if len(a.Values) != fbNF || len(a.Masks) != fbNF {
				return fail(codes.InvalidArgument, "wrong number of fields")
			}
			var vals, masks [fbNF]uint64
			v, m := fbInts(a.Values), fbInts(a.Masks)
			for i := 0; i < fbNF; i++ {
				vals[i], masks[i] = v[i]&m[i], m[i]
			}
			rec.Key = fmt.Sprint(vals, masks)
			if _, ok := f.pdrs[rec.Key]; !ok {
				return fail(codes.NotFound, "ENOENT")
			}
			delete(f.pdrs, rec.Key)
		case "clear":
			f.pdrs = map[string]*fbPDR{}
		default:
			return fail(codes.InvalidArgument, "unknown command")
		}
	case "farLookup":
		switch in.Cmd {
		case "add":
			a := &pb.ExactMatchCommandAddArg{}
			if err := in.Arg.UnmarshalTo(a); err != nil {
				return fail(codes.InvalidArgument, err.Error())
			}
			fl := fbInts(a.Fields)
			if len(fl) != 2 || len(a.Values) != 6 {
				return fail(codes.InvalidArgument, "wrong number of fields")
			}
			rec.Key = fmt.Sprint(fl)
			f.fars[rec.Key] = &fbFAR{FarID: fl[0], FSEID: fl[1], Gate: a.Gate, Values: fbInts(a.Values), Epoch: f.epoch}
		case "delete":
			a := &pb.ExactMatchCommandDeleteArg{}
			if err := in.Arg.UnmarshalTo(a); err != nil {
				return fail(codes.InvalidArgument, err.Error())
			}
			rec.Key = fmt.Sprint(fbInts(a.Fields))
			if _, ok := f.fars[rec.Key]; !ok {
				return fail(codes.NotFound, "ENOENT")
			}
			delete(f.fars, rec.Key)
		case "clear":
			f.fars = map[string]*fbFAR{}
		default:
			return fail(codes.InvalidArgument, "unknown command")
		}
	case AppQerLookup, SessQerLookup, "sliceMeter":
		tbl := f.qos[in.Name]
		switch in.Cmd {
		case "add":
			a := &pb.QosCommandAddArg{}
			if err := in.Arg.UnmarshalTo(a); err != nil {
				return fail(codes.InvalidArgument, err.Error())
			}
			e := &fbQER{Fields: fbInts(a.Fields), Values: fbInts(a.Values), Gate: a.Gate, Cir: a.Cir, Pir: a.Pir, Cbs: a.Cbs,
				Pbs: a.Pbs, Ebs: a.Ebs, Deduct: -1, Epoch: f.epoch}
			if d, ok := a.OptionalDeductLen.(*pb.QosCommandAddArg_DeductLen); ok {
				e.Deduct = d.DeductLen
			}
			rec.Key = fmt.Sprint(e.Fields)
			tbl[rec.Key] = e
		case "delete":
			a := &pb.QosCommandDeleteArg{}
			if err := in.Arg.UnmarshalTo(a); err != nil {
				return fail(codes.InvalidArgument, err.Error())
			}
			rec.Key = fmt.Sprint(fbInts(a.Fields))
			if _, ok := tbl[rec.Key]; !ok {
				return fail(codes.NotFound, "ENOENT")
			}
			delete(tbl, rec.Key)
		case "clear":
			f.qos[in.Name] = map[string]*fbQER{}
		default:
			return fail(codes.InvalidArgument, "unknown command")
		}
	default:
		return fail(codes.NotFound, "no such module "+in.Name)
	}
	f.log = append(f.log, rec)
	return &pb.CommandResponse{}, nil
}

func (f *fakeBESS) GetPortStats(ctx context.Context, in *pb.GetPortStatsRequest, _ ...grpc.CallOption) (*pb.GetPortStatsResponse, error) {
	return &pb.GetPortStatsResponse{}, nil
}

// ncommands returns the number of commands received so far (including refused ones).
func (f *fakeBESS) ncommands() int {
	f.mu.Lock()
	defer f.mu.Unlock()
	return f.ncmd
}

func (f *fakeBESS) logSince(n int) []fbCmd {
	f.mu.Lock()
	defer f.mu.Unlock()
	return append([]fbCmd{}, f.log[n:]...)
}

func (f *fakeBESS) newEpoch() {
	f.mu.Lock()
	f.epoch++
	f.deadAfter = -1
	f.mu.Unlock()
}

type fbPacket [fbNF]uint64

// classify returns the winning pdrLookup entry for a packet (highest priority among matching entries); ties are
// reported through the second return value (the statement leaves ties open).
func (f *fakeBESS) classify(p fbPacket) (win *fbPDR, tie bool) {
	f.mu.Lock()
	defer f.mu.Unlock()
	for _, e := range f.pdrs {
		ok := true
		for i := 0; i < fbNF; i++ {
			if p[i]&e.Masks[i] != e.Values[i] {
				ok = false
				break
			}
		}
		if !ok {
			continue
		}
		switch {
		case win == nil || e.Priority > win.Priority:
			win, tie = e, false
		case e.Priority == win.Priority && (e.PdrID != win.PdrID || e.FSEID != win.FSEID):
			tie = true
		}
	}
	return
}

func (f *fakeBESS) pdrList() []*fbPDR {
	f.mu.Lock()
	defer f.mu.Unlock()
	keys := make([]string, 0, len(f.pdrs))
	for k := range f.pdrs {
		keys = append(keys, k)
	}
	sort.Strings(keys)
	out := make([]*fbPDR, 0, len(keys))
	for _, k := range keys {
		out = append(out, f.pdrs[k])
	}
	return out
}

func (f *fakeBESS) farList() []*fbFAR {
	f.mu.Lock()
	defer f.mu.Unlock()
	keys := make([]string, 0, len(f.fars))
	for k := range f.fars {
		keys = append(keys, k)
	}
	sort.Strings(keys)
	out := make([]*fbFAR, 0, len(keys))
	for _, k := range keys {
		out = append(out, f.fars[k])
	}
	return out
}

func (f *fakeBESS) qosList(module string) []*fbQER {
	f.mu.Lock()
	defer f.mu.Unlock()
	keys := make([]string, 0, len(f.qos[module]))
	for k := range f.qos[module] {
		keys = append(keys, k)
	}
	sort.Strings(keys)
	out := make([]*fbQER, 0, len(keys))
	for _, k := range keys {
		out = append(out, f.qos[module][k])
	}
	return out
}

// ---- gRPC front end (one per worker process): gives the real bess plug-in a real, Ready grpc.ClientConn and lets
// the real SetUpfInfo run against the fake. The service forwards to whichever fake is current.

type fbServer struct {
	pb.UnimplementedBESSControlServer
	mu  sync.Mutex
	cur *fakeBESS
}

func (s *fbServer) ModuleCommand(ctx context.Context, in *pb.CommandRequest) (*pb.CommandResponse, error) {
	s.mu.Lock()
	cur := s.cur
	s.mu.Unlock()
	if cur == nil {
		return nil, status.Error(codes.Unavailable, "no fake attached")
	}
	return cur.ModuleCommand(ctx, in)
}

func (s *fbServer) GetPortStats(ctx context.Context, in *pb.GetPortStatsRequest) (*pb.GetPortStatsResponse, error) {
	return &pb.GetPortStatsResponse{}, nil
}

var (
	fbSrvOnce  sync.Once
	fbSrv      *fbServer
	fbSrvAddr  string
	fbReadyCon *grpc.ClientConn
)

// fbFrontEnd starts the per-process gRPC server and returns its address and a shared Ready client connection.
func fbFrontEnd() (*fbServer, string, *grpc.ClientConn) {
	fbSrvOnce.Do(func() {
		dir := filepath.Join(vScratchDir(), fmt.Sprintf("p%d", os.Getpid()))
		os.MkdirAll(dir, 0o755)
		sock := filepath.Join(dir, "bess.sock")
		os.Remove(sock)
		lis, err := net.Listen("unix", sock)
		if err != nil {
			panic(err)
		}
		fbSrv = &fbServer{}
		g := grpc.NewServer()
		pb.RegisterBESSControlServer(g, fbSrv)
		go g.Serve(lis)
		fbSrvAddr = "unix://" + sock
		c, err := grpc.NewClient(fbSrvAddr, grpc.WithTransportCredentials(insecure.NewCredentials()), grpc.WithIdleTimeout(0))
		if err != nil {
			panic(err)
		}
		if !vWaitChannel(c, true, 60*time.Second) {
			panic("fake BESS front end: connection did not become ready")
		}
		fbReadyCon = c
	})
	return fbSrv, fbSrvAddr, fbReadyCon
}

// vWaitChannel waits (in real time) until the channel is READY (ready=true) or has left READY (ready=false). The state is
// read ONCE per round: reading it again for WaitForStateChange would wait for a change from a state the channel may
// just have reached - a race that made this wait time out at random under load.
func vWaitChannel(conn *grpc.ClientConn, ready bool, limit time.Duration) bool {
	ctx, cancel := context.WithTimeout(context.Background(), limit)
	defer cancel()
	for {
		st := conn.GetState()
		if (st == connectivity.Ready) == ready {
			return true
		}
		if ready {
			conn.Connect()
		}
		if !conn.WaitForStateChange(ctx, st) {
			return false
		}
	}
}

// fbFreshReadyConn returns a Ready client connection, re-dialling when the shared one was closed (bess.Exit closes the
// connection it was given). Must be called outside the cooperative scheduler: it waits in real time.
func fbFreshReadyConn() *grpc.ClientConn {
	_, addr, c := fbFrontEnd()
	if c.GetState() != connectivity.Shutdown {
		return c
	}
	// several attempts: under heavy load a single dial has been seen to sit in back-off for tens of seconds
	for attempt := 0; ; attempt++ {
		nc, err := grpc.NewClient(addr, grpc.WithTransportCredentials(insecure.NewCredentials()), grpc.WithIdleTimeout(0))
		if err != nil {
			panic("VERIF-INFRA: " + err.Error())
		}
		ok := vWaitChannel(nc, true, 15*time.Second)
		if ok {
			fbReadyCon = nc
			return nc
		}
		nc.Close()
		if attempt >= 7 {
			panic("VERIF-INFRA: fake BESS front end: connection did not become ready (8 attempts of 15 s)")
		}
	}
}

func (s *fbServer) attach(f *fakeBESS) {
	s.mu.Lock()
	s.cur = f
	s.mu.Unlock()
}

var _ = anypb.New
