//go:build verif

// Instance assembly (adapter): builds the real upf / plug-in / PFCPConn objects around the fakes, and the
// stimulus side: semantic request descriptions -> PFCP bytes (own marshaller, so that arbitrary IE trees can be
// produced), decoded responses. All access to unexported names of the package is concentrated here and in
// fake_*.go; a renamed internal makes this file stop compiling (= infrastructure error, exit 2).
package pfcpiface

import (
	"context"
	"encoding/binary"
	"fmt"
	"math/rand"
	"net"
	"os"
	"path/filepath"
	"reflect"
	"sync"
	"time"

	"github.com/omec-project/upf-epc/pfcpiface/metrics"
	"github.com/wmnsk/go-pfcp/ie"
	"github.com/wmnsk/go-pfcp/message"
)

var vEMCounter int

// ---------------------------------------------------------------------------------------------- sockets

type vSock struct {
	mu            sync.Mutex
	out           [][]byte
	closed        bool
	closeCh       chan struct{}
	local, remote *net.UDPAddr
	writeErr      error
}

func newVSock(local, remote string) *vSock {
	l, _ := net.ResolveUDPAddr("udp", local)
	r, _ := net.ResolveUDPAddr("udp", remote)
	return &vSock{local: l, remote: r, closeCh: make(chan struct{})}
}
func (s *vSock) Read(b []byte) (int, error) { <-s.closeCh; return 0, net.ErrClosed }
func (s *vSock) Write(b []byte) (int, error) {
	s.mu.Lock()
	defer s.mu.Unlock()
	if s.closed {
		return 0, net.ErrClosed
	}
	if s.writeErr != nil {
		return 0, s.writeErr
	}
	s.out = append(s.out, append([]byte{}, b...))
	return len(b), nil
}
func (s *vSock) Close() error {
	s.mu.Lock()
	defer s.mu.Unlock()
	if s.closed {
		return net.ErrClosed
	}
	s.closed = true
	close(s.closeCh)
	return nil
}
func (s *vSock) LocalAddr() net.Addr                { return s.local }
func (s *vSock) RemoteAddr() net.Addr               { return s.remote }
func (s *vSock) SetDeadline(t time.Time) error      { return nil }
func (s *vSock) SetReadDeadline(t time.Time) error  { return nil }
func (s *vSock) SetWriteDeadline(t time.Time) error { return nil }
func (s *vSock) take() [][]byte {
	s.mu.Lock()
	defer s.mu.Unlock()
	o := s.out
	s.out = nil
	return o
}
func (s *vSock) isClosed() bool { s.mu.Lock(); defer s.mu.Unlock(); return s.closed }

// ---------------------------------------------------------------------------------------------- instance

type vCfg struct {
	P4          bool
	UEIPAlloc   bool
	Pool        string // UE pool CIDR
	EndMarker   bool
	NConns      int
	NodeID      string   // configured node id ("" = local address)
	RngScript   []uint64 // when set, the per-association random source replays this script (then repeats its last value)
	Dnn         string
	QciQos      []QciQosConfig
	Down        bool // datapath reports "not connected"
	P4Conf      *vP4Cfg
	FullStartup bool // run the real SetUpfInfo over gRPC instead of the fast assembly
}

const (
	vN3Addr = "198.18.0.1"
	vN6Addr = "198.19.0.1"
	vN4Addr = "10.0.0.1"
)

type vConn struct {
	pc   *PFCPConn
	sock *vSock
	done chan string
	seq  uint32 // next sequence number used by the harness as CP
	addr string
	node string // CP node id (what Association Setup announced)
}

type vInst struct {
	// emConn: the harness' end of the unixpacket socket the bess plug-in sends its end markers to (end markers enabled)
	emConn net.Conn
	cfg    vCfg
	u      *upf
	fb     *fakeBESS
	bs     *bess
	p4     *vP4Env
	conns  []*vConn
	met    *metrics.Service
	cancel context.CancelFunc
	ctx    context.Context
}

// scriptedSource is a rand.Source64 that replays a script and then repeats the last element.
type scriptedSource struct {
	script []uint64
	i      int
}

func (s *scriptedSource) next() uint64 {
	if len(s.script) == 0 {
		return 0
	}
	v := s.script[minInt(s.i, len(s.script)-1)]
	s.i++
	return v
}
func (s *scriptedSource) Int63() int64    { return int64(s.next() >> 1) }
func (s *scriptedSource) Uint64() uint64  { return s.next() }
func (s *scriptedSource) Seed(seed int64) {}

func minInt(a, b int) int {
	if a < b {
		return a
	}
	return b
}

// counterSource yields base+1, base+2, ... (distinct, deterministic SEIDs for bulk exploration)
type counterSource struct{ n uint64 }

func (s *counterSource) Int63() int64    { s.n++; return int64(s.n >> 1) }
func (s *counterSource) Uint64() uint64  { s.n++; return s.n }
func (s *counterSource) Seed(seed int64) {}

func vConfFor(cfg vCfg) *Conf {
	c := &Conf{EnableEndMarker: cfg.EndMarker, QciQosConfig: cfg.QciQos, MaxReqRetries: 5, RespTimeout: "2s", ReadTimeout: 15}
	c.CPIface.EnableUeIPAlloc = cfg.UEIPAlloc
	c.CPIface.UEIPPool = cfg.Pool
	c.CPIface.Dnn = cfg.Dnn
	c.EnableP4rt = cfg.P4
	return c
}

// newVInst assembles one instance. Mirrors the tail of NewUPF (pool, TEID generator, SetUpfInfo) with fixed
// N3/N6 addresses instead of interface look-ups; everything else is the real code.
func newVInst(cfg vCfg) *vInst { return newVInstWith(cfg, nil) }

// newVInstWith builds an instance against an existing (possibly populated) fake datapath (*fakeBESS or *fakeP4): a new
// incarnation of the agent.
func newVInstWith(cfg vCfg, old any) *vInst {
	oldFB, _ := old.(*fakeBESS)
	oldFP, _ := old.(*fakeP4)
	if cfg.NConns == 0 {
		cfg.NConns = 1
	}
	in := &vInst{cfg: cfg}
	conf := vConfFor(cfg)
	u := &upf{
		enableUeIPAlloc: cfg.UEIPAlloc, enableEndMarker: cfg.EndMarker, ippoolCidr: cfg.Pool, nodeID: cfg.NodeID, dnn: cfg.Dnn,
		accessIface: "access", coreIface: "core",
		reportNotifyChan: make(chan uint64, 1024), maxReqRetries: 5, readTimeout: 15 * time.Second, respTimeout: 2 * time.Second,
		fteidGenerator: NewFTEIDGenerator(), n4addr: vN4Addr,
		accessIP: net.ParseIP(vN3Addr).To4(), coreIP: net.ParseIP(vN6Addr).To4(),
	}
	if cfg.UEIPAlloc {
		p, err := NewIPPool(cfg.Pool)
		if err != nil {
			panic(err)
		}
		u.ippool = p
	}
	in.u = u
	if cfg.P4 {
		in.p4 = newVP4EnvWith(in, conf, oldFP)
	} else {
		in.fb = oldFB
		if in.fb == nil {
			in.fb = newFakeBESS()
		}
		srv, addr, ready := fbFrontEnd()
		srv.attach(in.fb)
		b := &bess{}
		u.datapath = b
		if cfg.FullStartup || os.Getenv("VERIF_BESS_FAST") == "" {
			// the real SetUpfInfo over gRPC (about a millisecond): whatever it initialises is initialised; afterwards the
			// commands go to the fake directly unless the full path was asked for
			*bessIP = addr
			in.fb.mu.Lock()
			n0 := in.fb.ncmd
			in.fb.mu.Unlock()
			var emLis net.Listener
			if cfg.EndMarker {
				// the end-marker socket of the real plug-in: a unixpacket listener of this instance, so that SetUpfInfo dials it
				// and starts its own send loop; the harness reads what BESS would read, record by record
				vEMCounter++
				path := filepath.Join(vScratchDir(), fmt.Sprintf("em-%d-%d.sock", os.Getpid(), vEMCounter))
				os.Remove(path)
				l, err := net.Listen("unixpacket", path)
				if err != nil {
					panic("VERIF-INFRA: end-marker socket: " + err.Error())
				}
				emLis = l
				conf.EndMarkerSockAddr = path
				defer os.Remove(path)
			}
			b.SetUpfInfo(u, conf)
			if emLis != nil {
				if ul, ok := emLis.(*net.UnixListener); ok {
					ul.SetDeadline(time.Now().Add(30 * time.Second))
				}
				c, err := emLis.Accept()
				emLis.Close()
				if err != nil {
					panic("VERIF-INFRA: the bess plug-in did not connect to its end-marker socket: " + err.Error())
				}
				in.emConn = c
			}
			// SetUpfInfo clears the four tables over a channel it has just created; should that very first connection
			// attempt have failed (thousands of short-lived channels per second), the clear commands were not sent: wait for
			// the channel and let the plug-in clear again - start-up is not what is being varied here
			if !vWaitChannel(b.conn, true, 60*time.Second) {
				panic(fmt.Sprintf("VERIF-INFRA: the BESS channel of this instance did not become READY within 60 s (state %v)", b.conn.GetState()))
			}
			in.fb.mu.Lock()
			seen := in.fb.ncmd - n0
			in.fb.mu.Unlock()
			if seen < 4 {
				b.clearState()
			}
			if !cfg.FullStartup {
				b.client = in.fb
			}
		} else {
			b.readQciQosMap(conf)
			if f := reflect.ValueOf(b).Elem().FieldByName("endMarkerChan"); f.IsValid() {
				vSetField(b, "endMarkerChan", reflect.MakeChan(f.Type(), 1024).Interface())
			}
			b.client = in.fb
			b.conn = ready
			b.clearState()
		}
		if cfg.Down {
			b.conn = nil
		}
		in.bs = b
	}
	m, err := metrics.NewPrometheusService()
	if err != nil {
		panic("metrics service already registered: " + err.Error())
	}
	in.met = m
	in.ctx, in.cancel = context.WithCancel(context.Background())
	for i := 0; i < cfg.NConns; i++ {
		in.addConn(i)
	}
	return in
}

// addConn mirrors NewPFCPConn without the UDP dial and without starting Serve (the reader loop is not needed when
// datagrams are injected through HandlePFCPMsg).
func (in *vInst) addConn(i int) *vConn {
	addr := fmt.Sprintf("10.0.1.%d:8805", i+1)
	sock := newVSock(vN4Addr+":8805", addr)
	done := make(chan string, 64)
	var src rand.Source = &counterSource{n: uint64(i+1) << 40}
	if in.cfg.RngScript != nil {
		src = &scriptedSource{script: in.cfg.RngScript}
	}
	p := &PFCPConn{
		ctx: in.ctx, Conn: sock, ts: recoveryTS{local: time.Unix(1700000000+int64(i), 0)}, maxRetries: 100,
		store: NewInMemoryStore(), upf: in.u, done: done, shutdown: make(chan struct{}), InstrumentPFCP: in.met,
		hbReset: make(chan struct{}, 100),
	}
	// the association's random source is injected by name: a tree that draws its F-SEIDs differently still builds, and only
	// the scenarios that script the source cannot run on it
	if !vSetField(p, "rng", rand.New(src)) && in.cfg.RngScript != nil {
		panic("VERIF-INFRA: PFCPConn has no field rng of type *rand.Rand any more: the scripted random source cannot be injected")
	}
	p.setLocalNodeID(in.u.nodeID)
	c := &vConn{pc: p, sock: sock, done: done, seq: 1, addr: addr, node: fmt.Sprintf("10.0.1.%d", i+1)}
	for len(in.conns) <= i {
		in.conns = append(in.conns, nil)
	}
	in.conns[i] = c
	return c
}

func (in *vInst) close() {
	in.cancel()
	if in.met != nil {
		in.met.Stop()
	}
	if in.p4 != nil {
		in.p4.close()
	}
	if in.bs != nil && in.bs.conn != nil && in.bs.conn != fbReadyCon {
		in.bs.conn.Close()
	}
	if in.emConn != nil {
		// ends the plug-in's send loop (it ranges over the queue) and releases both ends of the socket
		if f := vFieldValue(in.bs, "endMarkerChan"); f.IsValid() && f.Kind() == reflect.Chan && !f.IsNil() {
			f.Close()
		}
		in.emConn.Close()
		if in.bs.endMarkerSocket != nil {
			in.bs.endMarkerSocket.Close()
		}
	}
}

// inject hands one datagram to the association's handler and returns what was written to the peer socket.
// A panic inside the handler is returned as (frame, message).
func (in *vInst) inject(conn int, b []byte) (out [][]byte, frame, msg string) {
	c := in.conns[conn]
	c.sock.take()
	done := make(chan struct{})
	go func() {
		defer close(done)
		frame, msg = vCatch(func() { c.pc.HandlePFCPMsg(b) })
	}()
	select {
	case <-done:
	case <-time.After(90 * time.Second):
		// the receive loop of the real agent would be blocked for good; the goroutine is abandoned
		return c.sock.take(), "WEDGE", "HandlePFCPMsg did not return within 90 s"
	}
	return c.sock.take(), frame, msg
}

// ---------------------------------------------------------------------------------------------- IE trees

type vIE struct {
	T    uint16
	P    []byte
	Kids []*vIE
	Grp  bool
}

func vFromIE(i *ie.IE) *vIE {
	if i == nil {
		return nil
	}
	v := &vIE{T: i.Type}
	if len(i.ChildIEs) > 0 || i.IsGrouped() {
		v.Grp = true
		for _, c := range i.ChildIEs {
			v.Kids = append(v.Kids, vFromIE(c))
		}
		return v
	}
	v.P = append([]byte{}, i.Payload...)
	return v
}

func vGrp(t uint16, kids ...*vIE) *vIE {
	g := &vIE{T: t, Grp: true}
	for _, k := range kids {
		if k != nil {
			g.Kids = append(g.Kids, k)
		}
	}
	return g
}

func (v *vIE) clone() *vIE {
	c := &vIE{T: v.T, Grp: v.Grp, P: append([]byte{}, v.P...)}
	for _, k := range v.Kids {
		c.Kids = append(c.Kids, k.clone())
	}
	return c
}

func (v *vIE) marshal() []byte {
	var body []byte
	if v.Grp {
		for _, k := range v.Kids {
			body = append(body, k.marshal()...)
		}
	} else {
		body = v.P
	}
	out := make([]byte, 4, 4+len(body))
	binary.BigEndian.PutUint16(out[0:2], v.T)
	binary.BigEndian.PutUint16(out[2:4], uint16(len(body)))
	return append(out, body...)
}

type vMsg struct {
	Type uint8
	S    bool
	SEID uint64
	Seq  uint32
	IEs  []*vIE
}

func (m *vMsg) marshal() []byte {
	var body []byte
	for _, i := range m.IEs {
		if i != nil {
			body = append(body, i.marshal()...)
		}
	}
	hdr := []byte{0x20, m.Type, 0, 0}
	if m.S {
		hdr[0] |= 0x01
		s := make([]byte, 8)
		binary.BigEndian.PutUint64(s, m.SEID)
		hdr = append(hdr, s...)
	}
	hdr = append(hdr, byte(m.Seq>>16), byte(m.Seq>>8), byte(m.Seq), 0)
	n := len(hdr) - 4 + len(body)
	binary.BigEndian.PutUint16(hdr[2:4], uint16(n))
	return append(hdr, body...)
}

func (m *vMsg) clone() *vMsg {
	c := *m
	c.IEs = nil
	for _, i := range m.IEs {
		c.IEs = append(c.IEs, i.clone())
	}
	return &c
}

// ---------------------------------------------------------------------------------------------- semantic requests

type sFTEID struct {
	Choose bool   `json:"choose,omitempty"`
	TEID   uint32 `json:"teid,omitempty"`
	IP     string `json:"ip,omitempty"`
}

type sPDR struct {
	ID      uint16   `json:"id"`
	Prec    uint32   `json:"prec"`
	Src     uint8    `json:"src"` // ie.SrcInterfaceAccess (0) / ie.SrcInterfaceCore (1)
	FTEID   *sFTEID  `json:"fteid,omitempty"`
	UEIP    string   `json:"ueip,omitempty"`    // CP-provided UE address
	UEAlloc bool     `json:"uealloc,omitempty"` // ask the UP to allocate (CHV4)
	SDF     string   `json:"sdf,omitempty"`
	App     string   `json:"app,omitempty"`
	Decap   bool     `json:"decap,omitempty"`
	FAR     uint32   `json:"far"`
	QERs    []uint32 `json:"qers,omitempty"`
	BadSDF  bool     `json:"badsdf,omitempty"` // an SDF Filter IE with the FD flag and an empty description: the PDR is refused
	Rev     bool     `json:"rev,omitempty"`    // the IEs inside the PDI, and inside the PDR, in the reverse of the usual order (any order is legal)
}

type sFAR struct {
	ID      uint32 `json:"id"`
	Action  uint8  `json:"action"`
	HasFwd  bool   `json:"fwd,omitempty"` // (Update) Forwarding Parameters present
	Dst     uint8  `json:"dst,omitempty"` // destination interface (ie.DstInterfaceAccess 0 / Core 1)
	HasDst  bool   `json:"hasdst,omitempty"`
	OHCIP   string `json:"ohcip,omitempty"` // outer header creation peer (empty = none)
	OHCTEID uint32 `json:"ohcteid,omitempty"`
	SMFlags *uint8 `json:"smflags,omitempty"` // PFCPSMReq-Flags inside Update Forwarding Parameters (bit 2 = SNDEM)
}

type sQER struct {
	ID     uint32 `json:"id"`
	QFI    uint8  `json:"qfi"`
	GateUL uint8  `json:"gul"`
	GateDL uint8  `json:"gdl"`
	MBRUL  uint64 `json:"mul"`
	MBRDL  uint64 `json:"mdl"`
	GBRUL  uint64 `json:"gbul,omitempty"`
	GBRDL  uint64 `json:"gbdl,omitempty"`
	HasGBR bool   `json:"hasgbr,omitempty"`
	NoMBR  bool   `json:"nombr,omitempty"`
}

const (
	kAssoc = "assoc"
	kHB    = "hb"
	kPFD   = "pfd"
	kEst   = "est"
	kMod   = "mod"
	kDel   = "del"
	kRel   = "release"
	kSRR   = "reportresp"
)

type sPFD struct {
	App   string   `json:"app"`
	Flows []string `json:"flows"`
	Bad   string   `json:"bad,omitempty"` // "noflow" (PFD contents without flow description), "noctx"
}

type sReq struct {
	Kind    string `json:"kind"`
	Conn    int    `json:"conn"`
	Seq     uint32 `json:"seq,omitempty"`    // 0 = take the next one of the connection
	SEID    uint64 `json:"seid,omitempty"`   // header SEID (mod/del/reportresp): the UP SEID as known to the CP
	CPSEID  uint64 `json:"cpseid,omitempty"` // est: CP F-SEID; mod: new CP F-SEID when HasCP
	HasCP   bool   `json:"hascp,omitempty"`
	NodeID  string `json:"node,omitempty"` // "" = the association's node id
	Cause   uint8  `json:"cause,omitempty"`
	NoCause bool   `json:"nocause,omitempty"`
	TSOff   int64  `json:"tsoff,omitempty"` // assoc: seconds added to the peer's Recovery Time Stamp (a restarted peer)

	CreatePDR []sPDR   `json:"cpdr,omitempty"`
	CreateFAR []sFAR   `json:"cfar,omitempty"`
	CreateQER []sQER   `json:"cqer,omitempty"`
	UpdatePDR []sPDR   `json:"updr,omitempty"`
	UpdateFAR []sFAR   `json:"ufar,omitempty"`
	UpdateQER []sQER   `json:"uqer,omitempty"`
	RemovePDR []uint16 `json:"rpdr,omitempty"`
	RemoveFAR []uint32 `json:"rfar,omitempty"`
	RemoveQER []uint32 `json:"rqer,omitempty"`
	PFDs      []sPFD   `json:"pfds,omitempty"`
}

func vPDRIE(grp uint16, p sPDR) *vIE {
	var pdi []*vIE
	pdi = append(pdi, vFromIE(ie.NewSourceInterface(p.Src)))
	if p.FTEID != nil {
		if p.FTEID.Choose {
			pdi = append(pdi, vFromIE(ie.NewFTEID(0x04|0x01, 0, nil, nil, 0)))
		} else {
			pdi = append(pdi, vFromIE(ie.NewFTEID(0x01, p.FTEID.TEID, net.ParseIP(p.FTEID.IP), nil, 0)))
		}
	}
	if p.UEAlloc {
		pdi = append(pdi, vFromIE(ie.NewUEIPAddress(0x10, "", "", 0, 0)))
	} else if p.UEIP != "" {
		fl := uint8(0x02)
		if p.Src == ie.SrcInterfaceCore {
			fl |= 0x04
		}
		pdi = append(pdi, vFromIE(ie.NewUEIPAddress(fl, p.UEIP, "", 0, 0)))
	}
	if p.SDF != "" {
		pdi = append(pdi, vFromIE(ie.NewSDFFilter(p.SDF, "", "", "", 0)))
	}
	if p.BadSDF {
		pdi = append(pdi, &vIE{T: ie.SDFFilter, P: []byte{0x01, 0x00, 0x00, 0x00}})
	}
	if p.App != "" {
		pdi = append(pdi, vFromIE(ie.NewApplicationID(p.App)))
	}
	if p.Rev {
		for i, j := 0, len(pdi)-1; i < j; i, j = i+1, j-1 {
			pdi[i], pdi[j] = pdi[j], pdi[i]
		}
	}
	kids := []*vIE{vFromIE(ie.NewPDRID(p.ID)), vFromIE(ie.NewPrecedence(p.Prec)), vGrp(ie.PDI, pdi...)}
	if p.Decap {
		kids = append(kids, vFromIE(ie.NewOuterHeaderRemoval(0, 0)))
	}
	kids = append(kids, vFromIE(ie.NewFARID(p.FAR)))
	for _, q := range p.QERs {
		kids = append(kids, vFromIE(ie.NewQERID(q)))
	}
	if p.Rev {
		// the QER IDs keep their relative order (it carries meaning), everything else is reversed around them
		var qs, rest []*vIE
		for _, k := range kids {
			if k.T == ie.QERID {
				qs = append(qs, k)
			} else {
				rest = append(rest, k)
			}
		}
		for i, j := 0, len(rest)-1; i < j; i, j = i+1, j-1 {
			rest[i], rest[j] = rest[j], rest[i]
		}
		kids = append(qs, rest...)
	}
	return vGrp(grp, kids...)
}

func vFARIE(grp uint16, f sFAR) *vIE {
	kids := []*vIE{vFromIE(ie.NewFARID(f.ID)), vFromIE(ie.NewApplyAction(f.Action))}
	if f.HasFwd {
		var fp []*vIE
		if f.HasDst {
			fp = append(fp, vFromIE(ie.NewDestinationInterface(f.Dst)))
		}
		if f.OHCIP != "" {
			fp = append(fp, vFromIE(ie.NewOuterHeaderCreation(0x0100, f.OHCTEID, f.OHCIP, "", 0, 0, 0)))
		}
		if f.SMFlags != nil {
			fp = append(fp, vFromIE(ie.NewPFCPSMReqFlags(*f.SMFlags)))
		}
		t := uint16(ie.ForwardingParameters)
		if grp == ie.UpdateFAR {
			t = ie.UpdateForwardingParameters
		}
		kids = append(kids, vGrp(t, fp...))
	}
	return vGrp(grp, kids...)
}

func vQERIE(grp uint16, q sQER) *vIE {
	kids := []*vIE{vFromIE(ie.NewQERID(q.ID)), vFromIE(ie.NewQFI(q.QFI)), vFromIE(ie.NewGateStatus(q.GateUL, q.GateDL))}
	if !q.NoMBR {
		kids = append(kids, vFromIE(ie.NewMBR(q.MBRUL, q.MBRDL)))
	}
	if q.HasGBR {
		kids = append(kids, vFromIE(ie.NewGBR(q.GBRUL, q.GBRDL)))
	}
	return vGrp(grp, kids...)
}

func vNodeIDIE(id string) *vIE {
	if net.ParseIP(id) != nil {
		return vFromIE(ie.NewNodeID(id, "", ""))
	}
	return vFromIE(ie.NewNodeID("", "", id))
}

// build turns a semantic request into a PFCP message (IE tree); seq is filled in by the caller.
func (r *sReq) build(c *vConn) *vMsg {
	node := r.NodeID
	if node == "" {
		node = c.node
	}
	m := &vMsg{Seq: r.Seq}
	switch r.Kind {
	case kAssoc:
		m.Type = message.MsgTypeAssociationSetupRequest
		m.IEs = []*vIE{vNodeIDIE(node), vFromIE(ie.NewRecoveryTimeStamp(time.Unix(1600000000+r.TSOff, 0)))}
	case kHB:
		m.Type = message.MsgTypeHeartbeatRequest
		m.IEs = []*vIE{vFromIE(ie.NewRecoveryTimeStamp(time.Unix(1600000000+r.TSOff, 0)))}
	case kRel:
		m.Type = message.MsgTypeAssociationReleaseRequest
		m.IEs = []*vIE{vNodeIDIE(node)}
	case kPFD:
		m.Type = message.MsgTypePFDManagementRequest
		for _, p := range r.PFDs {
			var ctx []*vIE
			for _, fl := range p.Flows {
				ctx = append(ctx, vFromIE(ie.NewPFDContents(fl, "", "", "", "", nil, nil, nil)))
			}
			if p.Bad == "noflow" {
				ctx = append(ctx, vFromIE(ie.NewPFDContents("", "http://x", "", "", "", nil, nil, nil)))
			}
			kids := []*vIE{vFromIE(ie.NewApplicationID(p.App))}
			if p.Bad != "noctx" {
				kids = append(kids, vGrp(ie.PFDContext, ctx...))
			}
			m.IEs = append(m.IEs, vGrp(ie.ApplicationIDsPFDs, kids...))
		}
	case kEst:
		m.Type, m.S, m.SEID = message.MsgTypeSessionEstablishmentRequest, true, 0
		m.IEs = []*vIE{vNodeIDIE(node), vFromIE(ie.NewFSEID(r.CPSEID, net.ParseIP(c.node).To4(), nil))}
	case kMod:
		m.Type, m.S, m.SEID = message.MsgTypeSessionModificationRequest, true, r.SEID
		if r.HasCP {
			m.IEs = append(m.IEs, vFromIE(ie.NewFSEID(r.CPSEID, net.ParseIP(c.node).To4(), nil)))
		}
	case kDel:
		m.Type, m.S, m.SEID = message.MsgTypeSessionDeletionRequest, true, r.SEID
	case kSRR:
		m.Type, m.S, m.SEID = message.MsgTypeSessionReportResponse, true, r.SEID
		if !r.NoCause {
			m.IEs = append(m.IEs, vFromIE(ie.NewCause(r.Cause)))
		}
	default:
		panic("unknown request kind " + r.Kind)
	}
	for _, p := range r.CreatePDR {
		m.IEs = append(m.IEs, vPDRIE(ie.CreatePDR, p))
	}
	for _, f := range r.CreateFAR {
		m.IEs = append(m.IEs, vFARIE(ie.CreateFAR, f))
	}
	for _, q := range r.CreateQER {
		m.IEs = append(m.IEs, vQERIE(ie.CreateQER, q))
	}
	for _, p := range r.UpdatePDR {
		m.IEs = append(m.IEs, vPDRIE(ie.UpdatePDR, p))
	}
	for _, f := range r.UpdateFAR {
		m.IEs = append(m.IEs, vFARIE(ie.UpdateFAR, f))
	}
	for _, q := range r.UpdateQER {
		m.IEs = append(m.IEs, vQERIE(ie.UpdateQER, q))
	}
	for _, id := range r.RemovePDR {
		m.IEs = append(m.IEs, vGrp(ie.RemovePDR, vFromIE(ie.NewPDRID(id))))
	}
	for _, id := range r.RemoveFAR {
		m.IEs = append(m.IEs, vGrp(ie.RemoveFAR, vFromIE(ie.NewFARID(id))))
	}
	for _, id := range r.RemoveQER {
		m.IEs = append(m.IEs, vGrp(ie.RemoveQER, vFromIE(ie.NewQERID(id))))
	}
	return m
}

// ---------------------------------------------------------------------------------------------- responses

type vResp struct {
	Type     uint8
	Name     string
	Seq      uint32
	HasSEID  bool
	SEID     uint64
	Cause    uint8
	HasCause bool
	NodeID   string
	UPSEID   uint64
	UPIP     string
	HasFSEID bool
	Created  []vCreated
	Raw      message.Message
	Features []byte
	RecTS    time.Time
	HasRecTS bool
	PDRID    uint16 // downlink data report
}

type vCreated struct {
	PDRID uint16
	TEID  uint32
	TIP   string
	HasT  bool
	UEIP  string
	HasU  bool
}

func vDecode(b []byte) (*vResp, error) {
	m, err := message.Parse(b)
	if err != nil {
		return nil, err
	}
	r := &vResp{Type: m.MessageType(), Name: m.MessageTypeName(), Seq: m.Sequence(), Raw: m}
	if len(b) > 0 && b[0]&0x01 != 0 {
		r.HasSEID, r.SEID = true, m.SEID()
	}
	cause := func(i *ie.IE) {
		if i != nil {
			if c, err := i.Cause(); err == nil {
				r.Cause, r.HasCause = c, true
			}
		}
	}
	node := func(i *ie.IE) {
		if i != nil {
			if n, err := i.NodeID(); err == nil {
				r.NodeID = n
			}
		}
	}
	ts := func(i *ie.IE) {
		if i != nil {
			if t, err := i.RecoveryTimeStamp(); err == nil {
				r.RecTS, r.HasRecTS = t, true
			}
		}
	}
	switch x := m.(type) {
	case *message.HeartbeatResponse:
		ts(x.RecoveryTimeStamp)
	case *message.AssociationSetupResponse:
		cause(x.Cause)
		node(x.NodeID)
		ts(x.RecoveryTimeStamp)
		if x.UPFunctionFeatures != nil {
			r.Features = x.UPFunctionFeatures.Payload
		}
	case *message.AssociationReleaseResponse:
		cause(x.Cause)
		node(x.NodeID)
	case *message.PFDManagementResponse:
		cause(x.Cause)
	case *message.SessionEstablishmentResponse:
		cause(x.Cause)
		node(x.NodeID)
		if x.UPFSEID != nil {
			if f, err := x.UPFSEID.FSEID(); err == nil {
				r.HasFSEID, r.UPSEID = true, f.SEID
				if f.IPv4Address != nil {
					r.UPIP = f.IPv4Address.String()
				}
			}
		}
		for _, c := range x.CreatedPDR {
			var cr vCreated
			if id, err := c.PDRID(); err == nil {
				cr.PDRID = id
			}
			if f, err := c.FTEID(); err == nil {
				cr.HasT, cr.TEID = true, f.TEID
				if f.IPv4Address != nil {
					cr.TIP = f.IPv4Address.String()
				}
			}
			if u, err := c.UEIPAddress(); err == nil {
				cr.HasU = true
				if u.IPv4Address != nil {
					cr.UEIP = u.IPv4Address.String()
				}
			}
			r.Created = append(r.Created, cr)
		}
	case *message.SessionModificationResponse:
		cause(x.Cause)
	case *message.SessionDeletionResponse:
		cause(x.Cause)
	case *message.SessionReportRequest:
		if x.DownlinkDataReport != nil {
			if id, err := x.DownlinkDataReport.PDRID(); err == nil {
				r.PDRID = id
			}
		}
	}
	return r, nil
}

// respTypeFor is the response type TS 29.244 pairs with a request type.
func vRespTypeFor(req uint8) uint8 {
	switch req {
	case message.MsgTypeHeartbeatRequest:
		return message.MsgTypeHeartbeatResponse
	case message.MsgTypePFDManagementRequest:
		return message.MsgTypePFDManagementResponse
	case message.MsgTypeAssociationSetupRequest:
		return message.MsgTypeAssociationSetupResponse
	case message.MsgTypeAssociationReleaseRequest:
		return message.MsgTypeAssociationReleaseResponse
	case message.MsgTypeSessionEstablishmentRequest:
		return message.MsgTypeSessionEstablishmentResponse
	case message.MsgTypeSessionModificationRequest:
		return message.MsgTypeSessionModificationResponse
	case message.MsgTypeSessionDeletionRequest:
		return message.MsgTypeSessionDeletionResponse
	}
	return 0
}

func vIP4(s string) uint32 {
	ip := net.ParseIP(s).To4()
	if ip == nil {
		return 0
	}
	return binary.BigEndian.Uint32(ip)
}

func vIPStr(v uint32) string {
	b := make(net.IP, 4)
	binary.BigEndian.PutUint32(b, v)
	return b.String()
}
