//go:build verif

// Engine SEQ: explicit-state breadth-first search over operation histories executed on the real code.
// A state is the history that reaches it; successors are computed by building a fresh instance, replaying the
// history and applying one more operation (live objects cannot be cloned). States are de-duplicated by a
// canonical key supplied by the system under exploration; replaying a stored history must reproduce its key.
package pfcpiface

import (
	"encoding/json"
	"fmt"
)

type seqOp struct {
	Name string          `json:"name"`
	Arg  json.RawMessage `json:"arg,omitempty"`
}

func mkOp(name string, arg any) seqOp {
	b, _ := json.Marshal(arg)
	return seqOp{Name: name, Arg: b}
}

// seqSys is one live instance of the system (implementation + reference model + oracle).
type seqSys interface {
	apply(op seqOp) // executes op on implementation and model, evaluates the oracles (findings go to the result)
	key() string    // canonical state key
	ops() []seqOp   // operations enabled in the current state, simplest first
	close()
}

type seqCase struct {
	Scenario json.RawMessage `json:"scenario"`
	History  []seqOp         `json:"history"`
}

type seqStats struct {
	States, Edges, Executed int64
	MaxDepth                int
	Truncated               bool
}

type seqExplorer struct {
	res       *vResult
	scenario  any
	mk        func() seqSys
	depth     int
	maxStates int
	stats     seqStats
	// onState is called once per distinct state with a live system positioned in that state (e.g. to inject mutants)
	onState func(sys seqSys, hist []seqOp)
	// prefixFilter restricts the expansion of the node reached by hist to the operations it admits (work sharding)
	prefixFilter func(hist []seqOp, i int) bool
	cur          []seqOp // history being executed (for findings raised by the oracles)
}

func (e *seqExplorer) scenarioJSON() json.RawMessage {
	b, _ := json.Marshal(e.scenario)
	return b
}

// replayCase is what a finding raised right now would need to be reproduced.
func (e *seqExplorer) replayCase() seqCase {
	return seqCase{Scenario: e.scenarioJSON(), History: append([]seqOp{}, e.cur...)}
}

func (e *seqExplorer) runHistory(h []seqOp) seqSys {
	sys := e.mk()
	e.cur = e.cur[:0]
	for _, op := range h {
		e.cur = append(e.cur, op)
		e.res.journal(e.replayCase())
		sys.apply(op)
		e.stats.Executed++
	}
	return sys
}

func (e *seqExplorer) explore(rootFilter func(i int) bool) {
	type node struct {
		hist []seqOp
		key  string
	}
	seen := map[string]bool{}
	sys := e.runHistory(nil)
	k0 := sys.key()
	rootOps := sys.ops()
	seen[k0] = true
	e.stats.States++
	if e.onState != nil && (rootFilter == nil || rootFilter(0)) {
		e.onState(sys, nil)
	}
	sys.close()
	frontier := []node{{nil, k0}}
	for d := 0; d < e.depth && len(frontier) > 0; d++ {
		var next []node
		for _, n := range frontier {
			if e.res.expired() || (e.maxStates > 0 && int(e.stats.States) >= e.maxStates) {
				e.stats.Truncated = true
				e.res.Exhaustive = false
				break
			}
			var ops []seqOp
			if d == 0 {
				ops = rootOps
			} else {
				s := e.runHistory(n.hist)
				if got := s.key(); got != n.key {
					s.close()
					panic(fmt.Sprintf("SEQ replay divergence (non-determinism not owned by the harness): history %s reached key\n%s\nthen\n%s", vJSON(n.hist), n.key, got))
				}
				ops = s.ops()
				s.close()
			}
			for i, op := range ops {
				if d == 0 && rootFilter != nil && !rootFilter(i) {
					continue
				}
				if e.prefixFilter != nil && !e.prefixFilter(n.hist, i) {
					continue
				}
				h := append(append([]seqOp{}, n.hist...), op)
				s := e.runHistory(h)
				e.stats.Edges++
				k := s.key()
				if !seen[k] {
					seen[k] = true
					e.stats.States++
					if len(h) > e.stats.MaxDepth {
						e.stats.MaxDepth = len(h)
					}
					if e.onState != nil {
						e.onState(s, h)
					}
					next = append(next, node{h, k})
				}
				s.close()
			}
		}
		frontier = next
	}
	e.res.States += e.stats.States
	e.res.Transitions += e.stats.Edges
	e.res.Traces += e.stats.Executed
	e.res.Evaluations += e.stats.Edges
	if d, ok := e.res.Extra["max_depth"].(int); !ok || e.stats.MaxDepth > d {
		e.res.Extra["max_depth"] = e.stats.MaxDepth
	}
}

// replay re-executes one recorded case without the explorer.
func (e *seqExplorer) replay(c seqCase) {
	s := e.runHistory(c.History)
	s.close()
	e.res.Evaluations += int64(len(c.History))
}
