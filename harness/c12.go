//go:build verif && verifinstr

// C12 - association, heartbeat and retransmission contract. Engine SCHED with a scripted lossy peer: the real
// heartbeat monitor / sendAssociationRequest, sendPFCPRequestMessage, GetResponse, handleIncomingResponse and
// handleHeartbeatRequest run on the virtual clock; the peer's reaction to every transmission is enumerated; the thread
// schedule is explored up to a deviation bound for a representative subset. Sequential sub-claim (connectivity gate and
// advertised features) on plain instances.
package pfcpiface

import (
	"bytes"
	"encoding/json"
	"fmt"
	pb "github.com/omec-project/upf-epc/pfcpiface/bess_pb"
	"google.golang.org/grpc/credentials/insecure"
	"net"
	"os"
	"path/filepath"
	"strings"
	"testing"
	"time"

	"github.com/omec-project/upf-epc/pfcpiface/internal/verif/vnet"
	"github.com/omec-project/upf-epc/pfcpiface/internal/verif/vsched"
	"github.com/omec-project/upf-epc/pfcpiface/internal/verif/vtime"
	"github.com/wmnsk/go-pfcp/ie"
	"github.com/wmnsk/go-pfcp/message"
	"google.golang.org/grpc"
)

// peer reactions to one transmission of an agent-originated request
//
//	S silent, A answer, W answer with a wrong sequence number, D answer twice, L answer only when the next transmission arrives
type c12Scenario struct {
	Mode    string `json:"mode"`    // "hb": agent heartbeats on a CP-initiated association; "assoc": agent-initiated association
	Retries uint8  `json:"retries"` // max_req_retries
	Script  string `json:"script"`  // one letter per transmission (in order of arrival at the peer); afterwards the peer answers everything
	PeerHB  string `json:"peerhb"`  // "", "early" (before association), "t3", "t6", "t11": when the peer sends its own Heartbeat Request
	Explore bool   `json:"explore"`
	// Sync: explored schedules never let a timer land before an enabled thread (computation is fast compared with the
	// 2 s / 5 s timers), so the complete oracle of the canonical schedule applies to every explored schedule
	Sync bool `json:"sync,omitempty"`
}

func (sc c12Scenario) name() string {
	if sc.Sync {
		return fmt.Sprintf("%s-n%d-%s-peerhb=%s-sync", sc.Mode, sc.Retries, sc.Script, sc.PeerHB)
	}
	return fmt.Sprintf("%s-n%d-%s-peerhb=%s", sc.Mode, sc.Retries, sc.Script, sc.PeerHB)
}

const (
	c12Resp = 2 * time.Second
	c12HB   = 5 * time.Second
)

type c12Tx struct {
	at  time.Duration
	typ uint8
	seq uint32
	raw []byte
}

func c12Run(sc c12Scenario, prefix []int, sigs []string, ready *grpc.ClientConn) (*vsched.Sched, schedVerdict) {
	s := vsched.New(prefix, 100000)
	s.PrefixSigs = sigs
	s.ChargeFreeSwitch = true
	s.MaxSlack = 3 * time.Second
	s.NoClockDeviation = sc.Sync
	s.ArriveYield = sc.Sync
	loose := sc.Explore && !sc.Sync // timers may land before enabled threads: only the schedule-independent part of the oracle
	if strings.ContainsAny(sc.Script, "CIR") {
		loose = true // a response lacking a mandatory IE: the statement does not say whether it counts as an answer; no crash, no wedge
	}
	start := s.Now
	var fab *vnet.Fabric
	var node *PFCPNode
	var fb *fakeBESS
	var sessSEID uint64
	var prologueErr string
	var peerHBAt []time.Duration // when the agent answered a peer heartbeat (virtual time of the response write)
	var peerHBTS []time.Time     // recovery time stamps in those answers
	var assocTS time.Time
	var probeOK bool
	var mSeqs []uint32                                            // sequence numbers of the session requests the peer sent in reaction 'M'
	sessResp := map[uint32]bool{}                                 // sequence numbers of the session responses the peer received
	horizon := 40*time.Second + time.Duration(sc.Retries)*c12Resp // every retransmission of the largest retry count fits
	vsched.S = nil
	u, f := schedUPF(true, 100000*time.Second, ready)
	defer func() {
		if b, ok := u.datapath.(*bess); ok && b.conn != nil {
			b.conn.Close()
		}
	}()
	s.Run(func() {
		fab = vnet.NewFabric()
		fb = f
		u.maxReqRetries = sc.Retries
		u.respTimeout = c12Resp
		u.hbInterval = c12HB
		if sc.Mode == "assoc" {
			u.peers = []string{"10.0.1.1"}
		}
		peer := fab.Peer(c10PeerAddr(0))
		c := &vConn{node: "10.0.1.1", seq: 1}
		node = NewPFCPNode(u)
		// ---- the scripted peer (environment thread): reacts to every agent-originated request that arrives
		handled := 0
		txIdx := 0
		var lateAnswer []byte
		respond := func(d *vResp, seq uint32) []byte {
			switch d.Type {
			case message.MsgTypeHeartbeatRequest:
				return (&vMsg{Type: message.MsgTypeHeartbeatResponse, Seq: seq, IEs: []*vIE{vFromIE(ie.NewRecoveryTimeStamp(time.Unix(1600000000, 0)))}}).marshal()
			case message.MsgTypeAssociationSetupRequest:
				return (&vMsg{Type: message.MsgTypeAssociationSetupResponse, Seq: seq, IEs: []*vIE{vNodeIDIE(c.node), vFromIE(ie.NewCause(ie.CauseRequestAccepted)), vFromIE(ie.NewRecoveryTimeStamp(time.Unix(1600000000, 0)))}}).marshal()
			}
			return nil
		}
		// a response with the right sequence number that lacks one mandatory IE (0 Cause, 1 Node ID, 2 Recovery Time Stamp)
		respondWithout := func(d *vResp, drop int) []byte {
			if d.Type == message.MsgTypeHeartbeatRequest {
				return (&vMsg{Type: message.MsgTypeHeartbeatResponse, Seq: d.Seq}).marshal()
			}
			ies := []*vIE{vFromIE(ie.NewCause(ie.CauseRequestAccepted)), vNodeIDIE(c.node), vFromIE(ie.NewRecoveryTimeStamp(time.Unix(1600000000, 0)))}
			ies = append(ies[:drop:drop], ies[drop+1:]...)
			return (&vMsg{Type: message.MsgTypeAssociationSetupResponse, Seq: d.Seq, IEs: ies}).marshal()
		}
		react := func() {
			for ; handled < len(peer.Inbox); handled++ {
				d, err := vDecode(peer.Inbox[handled])
				if err != nil {
					continue
				}
				switch d.Type {
				case message.MsgTypeHeartbeatResponse:
					if d.Seq >= 7000 && d.Seq < 7100 {
						peerHBAt = append(peerHBAt, s.Now.Sub(start))
						peerHBTS = append(peerHBTS, d.RecTS)
					}
					if d.Seq == 7777 {
						probeOK = true
					}
					continue
				case message.MsgTypeAssociationSetupResponse:
					assocTS = d.RecTS
					continue
				case message.MsgTypeSessionModificationResponse, message.MsgTypeSessionDeletionResponse:
					sessResp[d.Seq] = true
					continue
				case message.MsgTypeHeartbeatRequest, message.MsgTypeAssociationSetupRequest:
				default:
					continue
				}
				if lateAnswer != nil {
					peer.Send(c10N4+":8805", lateAnswer)
					lateAnswer = nil
				}
				act := byte('A')
				if txIdx < len(sc.Script) {
					act = sc.Script[txIdx]
				}
				txIdx++
				switch act {
				case 'A':
					peer.Send(c10N4+":8805", respond(d, d.Seq))
				case 'W':
					peer.Send(c10N4+":8805", respond(d, d.Seq+0x1000))
				case 'D':
					peer.Send(c10N4+":8805", respond(d, d.Seq))
					peer.Send(c10N4+":8805", respond(d, d.Seq))
				case 'L':
					lateAnswer = respond(d, d.Seq)
				case 'M':
					// no answer; instead a session request of the peer's own that happens to carry the same sequence number
					// (the two directions number their requests independently): it is a request and gets its response
					mSeqs = append(mSeqs, d.Seq)
					if sessSEID != 0 {
						peer.Send(c10N4+":8805", (&sReq{Kind: kMod, SEID: sessSEID, Seq: d.Seq}).build(c).marshal())
					} else {
						peer.Send(c10N4+":8805", (&sReq{Kind: kDel, SEID: 0xDEAD, Seq: d.Seq}).build(c).marshal())
					}
				case 'C', 'I', 'R':
					peer.Send(c10N4+":8805", respondWithout(d, strings.IndexByte("CIR", act)))
				}
			}
		}
		done := false
		vsched.Go("harness.peer", func() {
			for !done {
				vsched.Cond("peer.wait", func() bool { return done || handled < len(peer.Inbox) })
				react()
			}
		})
		if sc.PeerHB == "early" {
			// a Heartbeat Request before any association: it creates the PFCPConn and must be answered
			peer.Send(c10N4+":8805", (&sReq{Kind: kHB, Seq: 7000}).build(c).marshal())
		}
		vsched.Go("harness.serve", node.Serve)
		vsched.Quiesce("up")
		if sc.Mode == "hb" {
			peer.Send(c10N4+":8805", (&sReq{Kind: kAssoc, Seq: 1}).build(c).marshal())
			vsched.Quiesce("assoc")
			p, f2, _ := rsBasic("16.0.0.1", 0x100, "11.1.1.129")
			p[0].QERs = nil
			peer.Send(c10N4+":8805", (&sReq{Kind: kEst, CPSEID: 0xC0, Seq: 2, CreatePDR: p[:1], CreateFAR: f2[:1]}).build(c).marshal())
			vsched.Quiesce("est")
			for _, b := range peer.Inbox {
				if d, err := vDecode(b); err == nil && d.HasFSEID {
					sessSEID = d.UPSEID
				}
			}
			if sessSEID == 0 {
				prologueErr = "establishment not accepted"
				return
			}
		}
		s.Explore = sc.Explore
		for _, at := range []struct {
			tag string
			t   time.Duration
		}{{"t3", 3 * time.Second}, {"t6", 6 * time.Second}, {"t11", 11 * time.Second}} {
			if sc.PeerHB == at.tag {
				at := at
				vsched.Go("harness.peerhb", func() {
					vtime.Sleep(at.t)
					peer.Send(c10N4+":8805", (&sReq{Kind: kHB, Seq: 7001}).build(c).marshal())
				})
			}
		}
		vtime.Sleep(horizon)
		vsched.Quiesce("settle")
		s.Explore = false
		// a late or duplicate response must not block the reader: the next datagram is still processed
		if v, ok := node.pConns.Load(c10PeerAddr(0)); ok && v != nil {
			peer.Send(c10N4+":8805", (&sReq{Kind: kHB, Seq: 7777}).build(c).marshal())
			vsched.Quiesce("probe")
		} else {
			probeOK = true
		}
		done = true
	})
	if node != nil && node.metrics != nil {
		node.metrics.Stop()
	}
	v := schedVerdict{}
	if prologueErr != "" {
		panic("VERIF-INFRA: C12 prologue: " + prologueErr)
	}
	if len(s.Panics) > 0 {
		first := strings.SplitN(s.Panics[0], "\n", 2)[0]
		v.Class, v.Desc, v.Outcome = "panic:"+vThreadFrame(s.Panics[0]), first, "panic"
		return s, v
	}
	if s.Horizon {
		v.Class, v.Desc, v.Outcome = "horizon", "execution did not come to rest", "horizon"
		return s, v
	}
	// ---- group the agent's transmissions by request (type, sequence number)
	var txs []c12Tx
	for _, w := range fab.Wire {
		if d, err := vDecode(w.B); err == nil && (d.Type == message.MsgTypeHeartbeatRequest || d.Type == message.MsgTypeAssociationSetupRequest) {
			txs = append(txs, c12Tx{at: w.At.Sub(start), typ: d.Type, seq: d.Seq, raw: w.B})
		}
	}
	type reqG struct {
		first int
		txs   []c12Tx
	}
	var reqs []*reqG
	bySeq := map[uint32]*reqG{}
	for i, t := range txs {
		g := bySeq[t.seq]
		if g == nil {
			g = &reqG{first: i}
			bySeq[t.seq] = g
			reqs = append(reqs, g)
		}
		g.txs = append(g.txs, t)
	}
	var bad []string
	dead := false
	txIdx := 0
	for _, g := range reqs {
		n := len(g.txs)
		if n > 1+int(sc.Retries) {
			bad = append(bad, fmt.Sprintf("too-many-transmissions: request seq %d was transmitted %d times, max_req_retries is %d", g.txs[0].seq, n, sc.Retries))
		}
		for i := 1; i < n; i++ {
			if g.txs[i].at-g.txs[i-1].at != c12Resp && !loose {
				bad = append(bad, fmt.Sprintf("retransmission-spacing: transmissions of seq %d are %v apart, resp_timeout is %v", g.txs[0].seq, g.txs[i].at-g.txs[i-1].at, c12Resp))
			}
			if g.txs[i].at-g.txs[i-1].at < c12Resp {
				bad = append(bad, fmt.Sprintf("retransmission-too-early: transmissions of seq %d are %v apart, resp_timeout is %v", g.txs[0].seq, g.txs[i].at-g.txs[i-1].at, c12Resp))
			}
			if !bytes.Equal(g.txs[i].raw, g.txs[0].raw) {
				bad = append(bad, fmt.Sprintf("retransmission-differs: a retransmission of seq %d is not identical to the first transmission", g.txs[0].seq))
			}
		}
		// what the script did to this request's transmissions: answered iff some transmission k got A or D, or L with a next one
		answeredAt := -1
		for i := 0; i < n; i++ {
			act := byte('A')
			if txIdx+i < len(sc.Script) {
				act = sc.Script[txIdx+i]
			}
			if act == 'A' || act == 'D' {
				answeredAt = i
				break
			}
			if act == 'L' && i+1 < n {
				answeredAt = i + 1 // delivered when the next transmission arrives
				break
			}
		}
		txIdx += n
		if !loose {
			switch {
			case answeredAt >= 0 && n != answeredAt+1:
				bad = append(bad, fmt.Sprintf("transmits-after-response: request seq %d was answered at transmission %d but transmitted %d times", g.txs[0].seq, answeredAt+1, n))
			case answeredAt < 0 && n != 1+int(sc.Retries) && !dead:
				bad = append(bad, fmt.Sprintf("gives-up-early: request seq %d went unanswered but was transmitted %d times, not %d", g.txs[0].seq, n, 1+int(sc.Retries)))
			}
		}
		if answeredAt < 0 {
			dead = true
		}
	}
	// peer declared dead iff every transmission of some request went unanswered
	_, stillThere := node.pConns.Load(c10PeerAddr(0))
	installed := 0
	for _, e := range fb.pdrList() {
		if e.FSEID == sessSEID {
			installed++
		}
	}
	if !loose {
		switch {
		case dead && ((stillThere && sc.PeerHB == "") || installed > 0): // a later peer heartbeat legitimately creates a fresh PFCPConn
			bad = append(bad, fmt.Sprintf("dead-peer-not-removed: every transmission of a request went unanswered but the association is still known (%v) / %d session entries remain", stillThere, installed))
		case !dead && (!stillThere || (sc.Mode == "hb" && installed == 0)):
			bad = append(bad, "live-peer-declared-dead: every request was answered in time, yet the association or its session is gone")
		}
	}
	if len(reqs) == 0 {
		bad = append(bad, "no-request-sent: the agent originated no request within the horizon")
	}
	// peer heartbeats: answered, constant recovery time stamp, and they postpone the agent's next heartbeat
	if sc.PeerHB != "" {
		if len(peerHBAt) == 0 && !dead {
			bad = append(bad, "peer-heartbeat-unanswered: the peer's Heartbeat Request was not answered")
		}
		for i, ts := range peerHBTS {
			if !assocTS.IsZero() && !ts.Equal(assocTS) && !dead {
				bad = append(bad, "recovery-timestamp-changes: the Recovery Time Stamp in a Heartbeat Response differs from the one of the association")
			}
			if sc.PeerHB != "early" && sc.Mode == "hb" && !loose { // timing clause: not under schedules that starve the monitor for seconds
				for _, g := range reqs {
					if g.txs[0].typ == message.MsgTypeHeartbeatRequest && g.txs[0].at > peerHBAt[i] && g.txs[0].at < peerHBAt[i]+c12HB {
						bad = append(bad, fmt.Sprintf("not-postponed: the peer's heartbeat was answered at %v, the agent's next own heartbeat went out at %v (< %v later)", peerHBAt[i], g.txs[0].at, c12HB))
					}
				}
			}
		}
	}
	for _, q := range mSeqs {
		if !sessResp[q] && !dead {
			bad = append(bad, fmt.Sprintf("session-request-unanswered: the peer's session request with sequence number %d (equal to that of the agent's outstanding request) got no response", q))
		}
	}
	if !probeOK {
		bad = append(bad, "reader-blocked: a Heartbeat Request sent after the exchange was not answered although the association is alive")
	}
	v.Outcome = fmt.Sprintf("reqs=%d txs=%d dead=%v", len(reqs), len(txs), dead)
	if len(bad) > 0 {
		v.Class = strings.SplitN(bad[0], ":", 2)[0]
		v.Desc = strings.Join(bad, "; ")
		v.Outcome = "BAD " + v.Class
	}
	return s, v
}

func c12Scripts(n int, alphabet string, maxLen int) []string {
	out := []string{""}
	frontier := []string{""}
	for l := 1; l <= maxLen; l++ {
		var next []string
		for _, p := range frontier {
			for _, a := range alphabet {
				next = append(next, p+string(a))
			}
		}
		out = append(out, next...)
		frontier = next
	}
	return out
}

func TestVerifC12(t *testing.T) {
	vQuietLoggers()
	res := vNewResult()
	defer res.write(t)
	res.Rule = "scripted peer: every reaction pattern (silent / answer / wrong sequence number / answer twice / answer only when the next transmission arrives; and, separately, silent + a session request of the peer's own with the same sequence number) to the first T transmissions of agent-originated requests " +
		"(heartbeats on a CP-initiated association; Association Setup towards a configured peer), max_req_retries in {1,2} (thorough: 3), T = 2(N+1) (quick: N=2 with T=4), and the ends of the range {0, 254, 255} with the peer silent for N, N+1 or N+3 transmissions, peer's own Heartbeat Request at {none, before association, " +
		"3 s, 6 s, 11 s}; canonical schedule for all, all schedules with <= 1 (quick) / 2 (thorough) deviations for a representative subset; plus the connectivity/feature sub-claim over datapath up/down x " +
		"UE-IP allocation x end marker x DNN, with Session Establishment Requests among the steps (refused, and nothing written, while no setup was accepted). distinct_nontrivial = executions"
	res.Assumptions = []string{"virtual clock: spacing is exact under the canonical schedule and only bounded from below under explored schedules", "after its script the peer answers every transmission"}
	ready := fbFreshReadyConn()
	if rc := vReplayCase(); rc != nil {
		var c schedCase
		json.Unmarshal(rc, &c)
		b, _ := json.Marshal(c.Scenario)
		var sc c12Scenario
		json.Unmarshal(b, &sc)
		if sc.Mode == "features" {
			c12Features(res)
			return
		}
		sr, v := c12Run(sc, c.Choices, c.Sigs, ready)
		if sr.Diverged != "" {
			panic("VERIF-INFRA: the recorded schedule does not fit this tree: " + sr.Diverged)
		}
		if v.Class != "" {
			res.finding("c12:"+v.Class+":"+sc.name(), v.Desc, c)
		}
		res.Evaluations++
		return
	}
	item := 0
	var scs []c12Scenario
	retries := []uint8{1, 2}
	if vEnv.Thorough {
		retries = []uint8{1, 2, 3}
	}
	for _, mode := range []string{"hb", "assoc"} {
		for _, n := range retries {
			maxLen := 2 * (int(n) + 1)
			if !vEnv.Thorough && n == 2 {
				maxLen = 4
			}
			if n == 3 {
				maxLen = 5
			}
			for _, sc := range c12Scripts(int(n), "SAWDL", maxLen) {
				if len(sc) > 0 && sc[len(sc)-1] == 'A' {
					continue // trailing A is the default reaction
				}
				scs = append(scs, c12Scenario{Mode: mode, Retries: n, Script: sc})
			}
			// responses that lack a mandatory IE (C Cause, I Node ID, R Recovery Time Stamp): crash-freedom and liveness of the reader
			for _, sc := range []string{"C", "I", "R", "SC", "SI", "SR", "CA", "WC"} {
				scs = append(scs, c12Scenario{Mode: mode, Retries: n, Script: sc})
			}
			// the peer reacts with a session request of its own that carries the sequence number of the agent's request
			for _, sc := range []string{"M", "SM", "MS", "MM"} {
				scs = append(scs, c12Scenario{Mode: mode, Retries: n, Script: sc})
			}
			for _, ph := range []string{"early", "t3", "t6", "t11"} {
				if ph == "early" && mode == "assoc" {
					// a datagram queued on the listening socket before the agent created the connected socket towards its configured
					// peer is dropped by handleNewPeers ("packet for existing PFCPconn"): a start-up window of the socket design,
					// not the heartbeat contract; left out (DESIGN.md section 11)
					continue
				}
				for _, sc := range []string{"", "S", "SS", "SA", "L", "D", "W"} {
					scs = append(scs, c12Scenario{Mode: mode, Retries: n, Script: sc, PeerHB: ph})
				}
			}
		}
	}
	// the ends of the range of max_req_retries (an 8-bit configuration value): no retransmission at all, and 254 / 255 of them
	// with the peer silent throughout, answering the very last transmission, or answering only what comes after the last
	for _, mode := range []string{"hb", "assoc"} {
		for _, n := range []uint8{0, 254, 255} {
			for _, sc := range []string{strings.Repeat("S", int(n)), strings.Repeat("S", int(n)+1), strings.Repeat("S", int(n)+3)} {
				scs = append(scs, c12Scenario{Mode: mode, Retries: n, Script: sc})
			}
		}
	}
	for _, sc := range scs {
		item++
		if !vMine(item) || res.expired() {
			continue
		}
		res.journal(schedCase{Scenario: sc})
		s, v := c12Run(sc, nil, nil, ready)
		res.Evaluations++
		res.Traces++
		res.Distinct++
		res.Transitions += int64(s.Steps)
		res.outcome(v.Outcome)
		if v.Class != "" {
			res.finding("c12:"+v.Class+":"+fmt.Sprintf("%s-n%d-peerhb=%s", sc.Mode, sc.Retries, sc.PeerHB), v.Desc+" [script "+sc.Script+", canonical schedule]", schedCase{Scenario: sc})
		}
	}
	res.States = int64(len(res.Outcomes))
	// schedule exploration for a representative subset
	bound := 1
	if vEnv.Thorough {
		bound = 2
	}
	for _, mode := range []string{"hb", "assoc"} {
		for _, script := range []string{"", "S", "SS", "L", "D", "SD", "W", "SL"} {
			for _, ph := range []string{"", "t6"} {
				item++
				if !vMine(item) {
					continue
				}
				sc := c12Scenario{Mode: mode, Retries: 1, Script: script, PeerHB: ph, Explore: true}
				st := schedExplore(res, "c12", sc, "explore:"+sc.name(), bound, 200000, func(p []int, sg []string) (*vsched.Sched, schedVerdict) { return c12Run(sc, p, sg, ready) })
				res.Distinct += st.Executions
			}
		}
	}
	// the same, without clock deviations and with the complete oracle, one deviation deeper
	for _, mode := range []string{"hb", "assoc"} {
		for _, script := range []string{"", "S", "L", "D", "W", "SL", "LL", "LS"} {
			for _, ph := range []string{"", "t3"} {
				item++
				if !vMine(item) {
					continue
				}
				sc := c12Scenario{Mode: mode, Retries: 1, Script: script, PeerHB: ph, Explore: true, Sync: true}
				if only := os.Getenv("VERIF_ONLY"); only != "" && !strings.Contains(sc.name(), only) {
					continue
				}
				if os.Getenv("VERIF_DEBUG_SIGS") != "" {
					s0, v0 := c12Run(sc, nil, nil, ready)
					for i, ch := range s0.Trace {
						fmt.Fprintf(os.Stderr, "DBG %d n=%d costs=%v %s\n", i, ch.N, ch.Costs, ch.Sig)
					}
					fmt.Fprintf(os.Stderr, "DBG verdict %+v\n", v0)
				}
				st := schedExplore(res, "c12", sc, "explore:"+sc.name(), bound+1, 200000, func(p []int, sg []string) (*vsched.Sched, schedVerdict) { return c12Run(sc, p, sg, ready) })
				res.Distinct += st.Executions
				if os.Getenv("VERIF_DEBUG_SIGS") != "" {
					fmt.Fprintf(os.Stderr, "DBG explored %s: %+v\n", sc.name(), st)
				}
			}
		}
	}
	if vMine(0) {
		c12Features(res)
	}
	res.sample(map[string]any{"scenario": c12Scenario{Mode: "hb", Retries: 2, Script: "SLW", PeerHB: "t6"}})
	res.Extra["states_are_outcomes"] = true
}

// c12Features: an Association Setup Request is accepted exactly when the datapath is connected and in both cases
// advertises F-TEID allocation always, UE IP allocation and end markers iff enabled.
func c12Features(res *vResult) {
	// every sequence of up to 4 steps over {Association Setup (same Recovery Time Stamp), Association Setup of a restarted
	// peer (newer time stamp), Association Setup from another node id, datapath connectivity toggles, Session Establishment}, from both initial
	// connectivity states: each Association Setup is accepted exactly when the datapath is connected at that moment
	var seqs []string
	frontier := []string{""}
	for l := 1; l <= 4; l++ {
		var next []string
		for _, p := range frontier {
			for _, a := range "ABNTE" {
				next = append(next, p+string(a))
			}
		}
		seqs = append(seqs, next...)
		frontier = next
	}
	only := ""
	if rc := vReplayCase(); rc != nil {
		var c schedCase
		json.Unmarshal(rc, &c)
		if m, ok := c.Scenario.(map[string]any); ok {
			only, _ = m["seq"].(string)
		}
	}
	if only == "" || strings.ContainsAny(only, "AT") {
		c12RealChannel(res)
	}
	for _, down := range []bool{false, true} {
		for _, p4 := range []bool{false, true} {
			for cfgi := 0; cfgi < 8; cfgi++ {
				cfg := vCfg{NConns: 1, Down: down, P4: p4, UEIPAlloc: cfgi&1 != 0, EndMarker: cfgi&2 != 0, Pool: "10.250.0.0/24"}
				if cfgi&4 != 0 {
					cfg.Dnn = "internet"
				}
				if p4 {
					cfg.P4Conf = &vP4Cfg{DefaultTC: 3, UEPool: "10.250.0.0/24"}
				}
				for _, sq := range seqs {
					if only != "" && sq != only {
						continue
					}
					if cfgi != 0 && cfgi != 7 && len(sq) > 2 {
						continue // long sequences on two feature configurations, all configurations for the short ones
					}
					c12FeatureSeq(res, cfg, sq)
				}
			}
		}
	}
}

// c12RealChannel: the connectivity gate on the real gRPC channel of the BESS plug-in. A private gRPC front end is stopped
// and restarted; every Association Setup must be accepted exactly when the channel is READY at that moment (a channel
// that lost its server sits in IDLE / TRANSIENT_FAILURE / CONNECTING). Waiting for the channel to leave or reach READY
// is a wait for a condition, not an oracle: if it does not happen within 20 s the check ends as infrastructure error.
func c12RealChannel(res *vResult) {
	dir := filepath.Join(vScratchDir(), fmt.Sprintf("c12-p%d", os.Getpid()))
	os.MkdirAll(dir, 0o755)
	sock := filepath.Join(dir, "bess-real.sock")
	fb := newFakeBESS()
	var g *grpc.Server
	start := func() {
		os.Remove(sock)
		lis, err := net.Listen("unix", sock)
		if err != nil {
			panic("VERIF-INFRA: " + err.Error())
		}
		g = grpc.NewServer()
		srv := &fbServer{}
		srv.attach(fb)
		pb.RegisterBESSControlServer(g, srv)
		go g.Serve(lis)
	}
	waitFor := func(conn *grpc.ClientConn, ready bool) {
		if !vWaitChannel(conn, ready, 20*time.Second) {
			panic(fmt.Sprintf("VERIF-INFRA: C12 real channel did not become ready=%v within 20 s (state %v)", ready, conn.GetState()))
		}
	}
	for _, sq := range []string{"A", "TA", "ATA", "TTA", "ATTA", "TATA", "ATATA"} {
		start()
		in := newVInst(vCfg{NConns: 1})
		conn, err := grpc.NewClient("unix://"+sock, grpc.WithTransportCredentials(insecure.NewCredentials()), grpc.WithIdleTimeout(0))
		if err != nil {
			panic("VERIF-INFRA: " + err.Error())
		}
		waitFor(conn, true)
		old := in.bs.conn
		in.bs.conn = conn
		up := true
		cs := schedCase{Scenario: map[string]any{"mode": "features", "real_channel": true, "seq": sq}}
		for i, op := range sq {
			if op == 'T' {
				if up {
					g.Stop()
					waitFor(conn, false)
				} else {
					start()
					waitFor(conn, true)
				}
				up = !up
				continue
			}
			out, fr, msg := in.inject(0, (&sReq{Kind: kAssoc, Seq: uint32(5 + i)}).build(in.conns[0]).marshal())
			res.Evaluations++
			res.Distinct++
			if fr != "" {
				res.finding("c12:panic:"+fr, msg, cs)
				break
			}
			if len(out) != 1 {
				res.finding("c12:features-no-response", fmt.Sprintf("%d responses (real channel, sequence %s, step %d)", len(out), sq, i), cs)
				break
			}
			d, err := vDecode(out[0])
			if err != nil || d.Type != message.MsgTypeAssociationSetupResponse {
				res.finding("c12:features-bad-response", "not an Association Setup Response", cs)
				break
			}
			if accepted := d.Cause == ie.CauseRequestAccepted; accepted != up {
				res.finding("c12:connectivity-gate:real-channel", fmt.Sprintf("the BESS gRPC server is up=%v (channel state %v) but the Association Setup was answered with cause %d (sequence %s, step %d; T = the server stops / starts again)", up, conn.GetState(), d.Cause, sq, i), cs)
				break
			}
		}
		in.bs.conn = old
		conn.Close()
		in.close()
		if up {
			g.Stop()
		}
	}
}

func c12FeatureSeq(res *vResult, cfg vCfg, sq string) {
	in := newVInst(cfg)
	defer in.close()
	c := in.conns[0]
	connected := !cfg.Down
	var ready *grpc.ClientConn
	if in.bs != nil {
		_, _, ready = fbFrontEnd()
	}
	cs := schedCase{Scenario: map[string]any{"mode": "features", "cfg": cfg, "seq": sq}}
	associated := false // some Association Setup of this sequence was accepted
	for i, op := range sq {
		if op == 'T' {
			connected = !connected
			if in.bs != nil {
				in.bs.conn = nil
				if connected {
					in.bs.conn = ready
				}
			} else {
				in.p4.up4.setConnectedStatus(connected)
			}
			continue
		}
		if op == 'E' && cfg.P4 && cfg.Down {
			// (a UP4 instance that starts disconnected has never run its initialisation; the toggle of this harness only flips
			// the connectivity flag, so an establishment "after the switch came up" would meet uninitialised pools - an artefact)
			continue
		}
		if op == 'E' {
			// a Session Establishment Request: as long as no Association Setup was accepted there is no association, the
			// request is refused and nothing is written to the datapath (a refused setup must not leave a half association)
			p, f, q := rsBasic(fmt.Sprintf("16.0.0.%d", i+1), uint32(0x100+i), "11.1.1.129")
			n0 := 0
			if in.fb != nil {
				n0 = in.fb.ncommands()
			} else {
				n0 = in.p4.nwrites()
			}
			out, fr, msg := in.inject(0, (&sReq{Kind: kEst, CPSEID: uint64(0x50 + i), Seq: uint32(5 + i), CreatePDR: p, CreateFAR: f, CreateQER: q}).build(c).marshal())
			res.Evaluations++
			res.Distinct++
			n1 := 0
			if in.fb != nil {
				n1 = in.fb.ncommands()
			} else {
				n1 = in.p4.nwrites()
			}
			if fr != "" {
				res.finding("c12:panic:"+fr, msg, cs)
				return
			}
			if !associated {
				acc := false
				for _, b := range out {
					if d, err := vDecode(b); err == nil && d.Type == message.MsgTypeSessionEstablishmentResponse && d.Cause == ie.CauseRequestAccepted {
						acc = true
					}
				}
				if acc || n1 != n0 {
					res.finding("c12:session-without-association", fmt.Sprintf("no Association Setup was accepted so far, yet the Session Establishment Request was accepted=%v and %d datapath command(s) were issued (sequence %s, step %d; E = establishment)", acc, n1-n0, sq, i), cs)
					return
				}
			}
			continue
		}
		r := &sReq{Kind: kAssoc, Seq: uint32(5 + i)}
		switch op {
		case 'B':
			r.TSOff = int64(100 * (i + 1))
		case 'N':
			r.NodeID = "10.0.9.9"
		}
		out, fr, msg := in.inject(0, r.build(c).marshal())
		res.Evaluations++
		res.Distinct++
		switch {
		case fr != "":
			res.finding("c12:panic:"+fr, msg, cs)
			return
		case len(out) != 1:
			res.finding("c12:features-no-response", fmt.Sprintf("%d responses (sequence %s, step %d)", len(out), sq, i), cs)
			return
		}
		d, err := vDecode(out[0])
		if err != nil || d.Type != message.MsgTypeAssociationSetupResponse {
			res.finding("c12:features-bad-response", "not an Association Setup Response", cs)
			return
		}
		accepted := d.Cause == ie.CauseRequestAccepted
		if accepted {
			associated = true
		}
		if accepted != connected {
			kind := "first"
			if i > 0 {
				kind = "repeated:" + string(op)
			}
			res.finding("c12:connectivity-gate:"+kind, fmt.Sprintf("datapath connected=%v at that moment but the Association Setup was answered with cause %d (sequence %s, step %d; A = setup, B = setup with a newer Recovery Time Stamp, N = setup from another node id, T = connectivity toggles)", connected, d.Cause, sq, i), cs)
			return
		}
		f := d.Features
		if len(f) < 3 || f[0]&0x10 == 0 || (f[2]&0x04 != 0) != cfg.UEIPAlloc || (f[1]&0x01 != 0) != cfg.EndMarker {
			res.finding("c12:features", fmt.Sprintf("UP Function Features % x for UE-IP allocation=%v end marker=%v (FTUP must always be set)", f, cfg.UEIPAlloc, cfg.EndMarker), cs)
			return
		}
	}
}
