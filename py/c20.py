#!/usr/bin/env python3
"""C20 - BESS route modules mirror the kernel's routes and neighbours.

Engine PY: explicit-state breadth-first search over sequences of kernel events (RTM_NEWROUTE / RTM_DELROUTE /
RTM_NEWNEIGH) delivered to the *unmodified* /repo/conf/route_control.py through its real netlink handlers, against a
recording stand-in for the pybess client that keeps the module graph. Successors are computed by replay on a fresh
RouteController. After every event the module graph is compared with refRoutes (what the kernel view denotes).
"""
import collections
import errno
import hashlib
import importlib.util
import json
import logging
import os
import sys
import time
import types

REPO = os.environ.get("VERIF_REPO", "/repo")
TIER = os.environ.get("VERIF_TIER", "quick")
OUT = os.environ.get("VERIF_OUT", "")
REPLAY = os.environ.get("VERIF_REPLAY", "")
DEADLINE = time.time() + int(os.environ.get("VERIF_DEADLINE_S", "3000"))

# ------------------------------------------------------------------------------------------------ stubs


class FakeBESS:
    """pybess.bess.BESS stand-in: modules, IPLookup tables and gate links with BESS's error behaviour."""

    class Error(Exception):
        def __init__(self, code, errmsg=""):
            super().__init__(errmsg)
            self.code = code
            self.errmsg = errmsg

    class RPCError(Exception):
        pass

    current = None  # the instance the controller under test talks to

    def __init__(self):
        FakeBESS.current = self
        self.modules = {}   # name -> (class, mac or None)
        self.routes = {}    # lookup module -> {(prefix, len): gate}
        self.links = {}     # (module, ogate) -> (next module, igate)
        self.paused = 0
        self.calls = 0

    def preinstall(self, interfaces):
        for i in interfaces:
            self.modules[i + "Routes"] = ("IPLookup", None)
            self.modules[i + "Merge"] = ("Merge", None)
            self.routes[i + "Routes"] = {}

    def is_connected(self):
        return True

    def connect(self, grpc_url=None):
        pass

    def pause_all(self):
        self.paused += 1

    def resume_all(self):
        self.paused -= 1

    def run_module_command(self, module, cmd, argtype, arg):
        self.calls += 1
        if module not in self.routes:
            raise FakeBESS.Error(errno.ENOENT, "no such module " + module)
        key = (arg["prefix"], int(arg["prefix_len"]))
        if cmd == "add":
            self.routes[module][key] = int(arg["gate"])
        elif cmd == "delete":
            if key not in self.routes[module]:
                raise FakeBESS.Error(errno.ENOENT, "no such route")
            del self.routes[module][key]
        else:
            raise FakeBESS.Error(errno.EINVAL, "bad command")

    def create_module(self, cls, name, arg):
        self.calls += 1
        if name in self.modules:
            raise FakeBESS.Error(errno.EEXIST, "module exists")
        mac = arg["fields"][0]["value"] if cls == "Update" else None
        self.modules[name] = (cls, mac)

    def connect_modules(self, m1, m2, ogate=0, igate=0):
        self.calls += 1
        if m1 not in self.modules or m2 not in self.modules:
            raise FakeBESS.Error(errno.ENOENT, "no such module")
        if (m1, ogate) in self.links:
            raise FakeBESS.Error(errno.EBUSY, "ogate busy")
        self.links[(m1, ogate)] = (m2, igate)

    def destroy_module(self, name):
        self.calls += 1
        if name not in self.modules:
            raise FakeBESS.Error(errno.ENOENT, "no such module")
        del self.modules[name]
        for k in [k for k, v in self.links.items() if k[0] == name or v[0] == name]:
            del self.links[k]

    def graph(self):
        return (tuple(sorted((k, v) for k, v in self.modules.items())),
                tuple(sorted((m, tuple(sorted(r.items()))) for m, r in self.routes.items())),
                tuple(sorted(self.links.items())))


class FakeNDB:
    def __init__(self, ifaces):
        self.interfaces = {i + 1: {"ifname": n} for i, n in enumerate(ifaces)}
        self._neigh = []
        self.neighbours = types.SimpleNamespace(dump=lambda: list(self._neigh))
        self.task_manager = types.SimpleNamespace(register_handler=lambda *a: None, unregister_handler=lambda *a: None)


def install_stubs():
    pybess = types.ModuleType("pybess")
    bess = types.ModuleType("pybess.bess")
    bess.BESS = FakeBESS
    bess.errno = errno
    bess.__all__ = ["BESS", "errno"]
    pybess.bess = bess
    sys.modules["pybess"], sys.modules["pybess.bess"] = pybess, bess
    pr = types.ModuleType("pyroute2")
    pr.NDB, pr.IPRoute = FakeNDB, object
    sys.modules["pyroute2"] = pr
    for name, attr in (("pyroute2.netlink", None), ("pyroute2.netlink.rtnl", None),
                       ("pyroute2.netlink.rtnl.rtmsg", "rtmsg"), ("pyroute2.netlink.rtnl.ndmsg", "ndmsg")):
        m = types.ModuleType(name)
        if attr:
            setattr(m, attr, type(attr, (), {}))
        sys.modules[name] = m
    sc = types.ModuleType("scapy")
    sca = types.ModuleType("scapy.all")
    sca.ICMP = lambda *a, **k: types.SimpleNamespace(__rtruediv__=lambda s, o: o)
    sca.IP = lambda *a, **k: types.SimpleNamespace(__truediv__=lambda s, o: s)

    class _P:
        def __init__(self, **k):
            self.k = k

        def __truediv__(self, o):
            return self
    sca.ICMP, sca.IP = _P, _P
    sca.send = lambda *a, **k: None
    sys.modules["scapy"], sys.modules["scapy.all"] = sc, sca


def load_module():
    install_stubs()
    spec = importlib.util.spec_from_file_location("route_control_under_test", os.path.join(REPO, "conf", "route_control.py"))
    mod = importlib.util.module_from_spec(spec)
    logging.disable(logging.CRITICAL)
    spec.loader.exec_module(mod)
    mod.time = types.SimpleNamespace(sleep=lambda s: None, time=time.time)  # the retry loops sleep 2 s x 5
    mod.send_ping = lambda ip: None
    return mod


# ------------------------------------------------------------------------------------------------ universe

IFACES = ["access", "core"]
# next hop -> (interface, MAC); nhA and nhB share a MAC on the same interface
NEXT_HOPS = collections.OrderedDict([("10.0.0.1", ("access", "00:00:00:00:00:aa")),
                                     ("10.0.0.2", ("access", "00:00:00:00:00:aa")),
                                     ("10.0.1.1", ("core", "00:00:00:00:00:bb")),
                                     ("10.0.0.3", ("access", "00:00:00:00:00:cc"))])
# (two prefixes share their network address and differ in length only)
PREFIXES = [("10.1.0.0", 16), ("10.1.0.0", 24), ("0.0.0.0", 0), ("10.3.0.0", 24)]


def universe():
    # three next hops on one interface (two of them sharing a MAC), one on the other; thorough adds a fourth prefix
    nhs = list(NEXT_HOPS)
    pfx = PREFIXES[:3]
    if TIER == "thorough":
        pfx = PREFIXES
    return nhs, pfx


class World:
    """kernel view + the controller under test + the fake BESS"""

    def __init__(self, mod):
        self.mod = mod
        self.bess = None
        self.kernel = {}       # prefix -> next hop
        self.resolved = set()  # next hops whose RTM_NEWNEIGH has been delivered to the controller
        self.visible = set()   # next hops whose MAC the kernel knows (the neighbour table shows it); the event may still be in flight
        self.ndb = FakeNDB(IFACES)
        bc = mod.BessController("localhost", "10514")
        self.bess = FakeBESS.current
        self.bess.preinstall(IFACES)
        self.rc = mod.RouteController(bess_controller=bc, ndb=self.ndb, ipr=None, interfaces=list(IFACES))
        self.escaped = None

    def route_msg(self, event, prefix, nh):
        iface = NEXT_HOPS[nh][0]
        attrs = [("RTA_GATEWAY", nh), ("RTA_OIF", IFACES.index(iface) + 1)]
        if prefix[1] != 0:
            attrs.append(("RTA_DST", prefix[0]))
        return {"event": event, "attrs": attrs, "dst_len": prefix[1]}

    def apply(self, ev):
        kind = ev[0]
        try:
            if kind == "newroute":
                _, p, nh = ev
                self.kernel[tuple(p)] = nh
                self.rc._netlink_route_handler(None, self.route_msg("RTM_NEWROUTE", tuple(p), nh))
            elif kind == "newroute~neigh":
                # two threads: the route thread handles RTM_NEWROUTE for a route through a next hop the kernel has not resolved
                # yet; right after it has read the neighbour table the kernel resolves the next hop and the neighbour thread
                # gets RTM_NEWNEIGH. The neighbour handler runs at the first moment the controller's lock is free: at once if
                # the route thread does not hold it at that point, otherwise when the route handler has released it.
                _, p, nh = ev
                self.kernel[tuple(p)] = nh
                mac = NEXT_HOPS[nh][1]
                st = {"fired": False, "deferred": False}
                real_dump = self.ndb.neighbours.dump

                def deliver():
                    self.resolved.add(nh)
                    self.rc._netlink_neighbor_handler(None, {"event": "RTM_NEWNEIGH", "attrs": [("NDA_DST", nh), ("NDA_LLADDR", mac)]})

                def dump():
                    snap = real_dump()
                    if not st["fired"]:
                        st["fired"] = True
                        self.visible.add(nh)
                        self.ndb._neigh.append({"dst": nh, "lladdr": mac})
                        if self.rc._lock.locked():
                            st["deferred"] = True
                        else:
                            deliver()
                    return snap
                self.ndb.neighbours.dump = dump
                try:
                    self.rc._netlink_route_handler(None, self.route_msg("RTM_NEWROUTE", tuple(p), nh))
                finally:
                    self.ndb.neighbours.dump = real_dump
                if not st["fired"]:
                    self.visible.add(nh)
                    self.ndb._neigh.append({"dst": nh, "lladdr": mac})
                    deliver()
                elif st["deferred"]:
                    deliver()
            elif kind == "delroute":
                _, p = ev
                nh = self.kernel.pop(tuple(p))
                self.rc._netlink_route_handler(None, self.route_msg("RTM_DELROUTE", tuple(p), nh))
            elif kind == "neighvis":
                # the kernel resolves the next hop: the neighbour table (NDB) shows it; its RTM_NEWNEIGH is still on its way
                _, nh = ev
                self.visible.add(nh)
                self.ndb._neigh.append({"dst": nh, "lladdr": NEXT_HOPS[nh][1]})
            elif kind == "newneigh":
                _, nh = ev
                mac = NEXT_HOPS[nh][1]
                if nh not in self.visible:
                    self.visible.add(nh)
                    self.ndb._neigh.append({"dst": nh, "lladdr": mac})
                self.resolved.add(nh)
                self.rc._netlink_neighbor_handler(None, {"event": "RTM_NEWNEIGH", "attrs": [("NDA_DST", nh), ("NDA_LLADDR", mac)]})
        except BaseException as e:  # noqa
            self.escaped = "%s: %s" % (type(e).__name__, e)

    def enabled(self):
        nhs, pfx = universe()
        evs = []
        for nh in nhs:
            if nh not in self.resolved:
                evs.append(("newneigh", nh))
                if nh not in self.visible:
                    evs.append(("neighvis", nh))
        for p in pfx:
            if tuple(p) in self.kernel:
                evs.append(("delroute", list(p)))
            else:
                for nh in nhs:
                    evs.append(("newroute", list(p), nh))
                for nh in nhs:
                    if nh not in self.visible and nh not in self.resolved:
                        evs.append(("newroute~neigh", list(p), nh))
        return evs

    def key(self):
        rc = self.rc

        def dump(d):
            # private caches are rendered generically (dataclass reprs), so that their shape may change
            return tuple(sorted((repr(k), repr(v)) for k, v in d.items()))
        return repr((tuple(sorted(self.kernel.items())), tuple(sorted(self.resolved)), tuple(sorted(self.visible)), dump(rc._unresolved_arp_queries_cache),
                     dump(rc._neighbor_cache), dump(rc._module_gate_count_cache), self.bess.graph(), self.escaped))

    # ---- refRoutes
    def check(self):
        """returns (class, description) of the first deviation, or None"""
        if self.escaped:
            return ("exception-escapes-handler", self.escaped)
        if self.bess.paused != 0:
            return ("pause-resume-unbalanced", "pause_all/resume_all calls do not balance (%d)" % self.bess.paused)
        mac_int = lambda m: int(m.replace(":", ""), 16)
        for iface in IFACES:
            table = self.bess.routes[iface + "Routes"]
            want = {p for p, nh in self.kernel.items() if NEXT_HOPS[nh][0] == iface and nh in self.resolved}
            # while the RTM_NEWNEIGH of a next hop is in flight, a route through it may or may not be installed yet (a route
            # added meanwhile finds the MAC in the neighbour table, an older one waits for the event)
            maybe = {p for p, nh in self.kernel.items() if NEXT_HOPS[nh][0] == iface and nh in self.visible and nh not in self.resolved}
            have = set(table) - maybe
            if want - have:
                p = sorted(want - have)[0]
                waiting = "" if self.kernel[p] not in () else ""
                return ("route-missing", "kernel has %s/%d via %s (MAC known) but %sRoutes does not%s" % (p[0], p[1], self.kernel[p], iface, waiting))
            if have - want:
                p = sorted(have - want)[0]
                why = "the kernel no longer has it" if p not in self.kernel else "its next hop %s is unresolved" % self.kernel[p]
                return ("route-extra", "%sRoutes holds %s/%d but %s" % (iface, p[0], p[1], why))
            gate_of = {}
            for p in sorted(want | (maybe & set(table))):
                nh = self.kernel[p]
                g = table[p]
                if nh in gate_of and gate_of[nh] != g:
                    return ("next-hop-two-gates", "routes through %s use gates %d and %d" % (nh, gate_of[nh], g))
                gate_of[nh] = g
            seen = {}
            for nh, g in gate_of.items():
                if g in seen:
                    return ("gate-shared", "%sRoutes gate %d is shared by live next hops %s and %s" % (iface, g, seen[g], nh))
                seen[g] = nh
                link = self.bess.links.get((iface + "Routes", g))
                if link is None:
                    return ("gate-not-linked", "gate %d of %sRoutes (next hop %s) is not linked to a MAC-rewrite module" % (g, iface, nh))
                upd = self.bess.modules.get(link[0])
                if upd is None or upd[0] != "Update" or upd[1] != mac_int(NEXT_HOPS[nh][1]):
                    return ("gate-wrong-module", "gate %d of %sRoutes (next hop %s) leads to %s %s" % (g, iface, nh, link[0], upd))
                if self.bess.links.get((link[0], 0), (None,))[0] != iface + "Merge":
                    return ("update-not-merged", "%s is not linked to %sMerge" % (link[0], iface))
        # a MAC-rewrite module exists iff at least one installed route uses it
        used = set()
        for iface in IFACES:
            for p, g in self.bess.routes[iface + "Routes"].items():
                link = self.bess.links.get((iface + "Routes", g))
                if link:
                    used.add(link[0])
        for name, (cls, _) in self.bess.modules.items():
            if cls == "Update" and name not in used:
                return ("update-module-unused", "MAC-rewrite module %s exists but no installed route uses it" % name)
        return None


def build(mod, hist):
    w = World(mod)
    for ev in hist:
        w.apply(ev)
    return w


def label(ev):
    return ev[0]


def explore(mod, depth, pool=None):
    res = dict(evaluations=0, states=0, transitions=0, distinct=0, traces=0, samples=[], findings=[], exhaustive=True, extra={}, outcomes={},
               rule="BFS over all kernel-consistent event sequences (RTM_NEWROUTE for a prefix the kernel lacks, RTM_DELROUTE for one it has, RTM_NEWNEIGH for an unresolved next hop, and RTM_NEWROUTE with the next hop's resolution arriving on a second thread right after the route thread's neighbour dump) over "
                    "2 interfaces, %d next hops (two sharing a MAC) and %d prefixes to depth %d; state = kernel table, neighbour table, the controller's three caches and the fake BESS module graph; "
                    "refRoutes evaluated after every event. distinct_nontrivial = distinct states" % (len(universe()[0]), len(universe()[1]), depth),
               assumptions=["fake pybess: create of an existing module = EEXIST, connect of a busy ogate = EBUSY, destroy/delete of a missing module/route = ENOENT, route add = upsert",
                            "RTM_NEWNEIGH also makes the neighbour visible in NDB, as the kernel would; time.sleep inside the module is a no-op",
                            "newroute~neigh: the route handler and the neighbour handler run on two threads (the controller's lock exists for that) with one preemption point, right after the route "
                            "thread's neighbour-table dump; the neighbour handler runs as soon as the controller's lock is free"])
    sigs = set()
    w0 = build(mod, [])
    seen = {_h(w0.key())}
    frontier = [[]]
    res["states"] = 1
    maxd = 0
    # level-synchronous breadth-first search: the successors of a whole level are computed by the worker processes (each
    # successor = a fresh controller, the history replayed, one more event), the parent keeps the one seen-set and the
    # frontier, in frontier order, so that the result does not depend on the number of workers
    for level in range(depth):
        if not frontier:
            break
        if time.time() > DEADLINE:
            res["exhaustive"] = False
            res["extra"]["deadline_hit"] = True
            break
        if pool is not None:
            expanded = pool.imap(_expand, frontier, chunksize=32)
        else:
            expanded = (_expand(h) for h in frontier)
        nxt = []
        for hist, succ in zip(frontier, expanded):
            for ev, k, v in succ:
                h2 = hist + [ev]
                res["transitions"] += 1
                res["traces"] += len(h2)
                res["evaluations"] += 1
                if k in seen:
                    continue
                seen.add(k)
                res["states"] += 1
                maxd = max(maxd, len(h2))
                if v:
                    # a state that deviates is terminal: its successors would only repeat the finding
                    sig = "c20:%s:after=%s" % (v[0], label(ev))
                    res["outcomes"][v[0]] = res["outcomes"].get(v[0], 0) + 1
                    if sig not in sigs:
                        sigs.add(sig)
                        res["findings"].append(dict(sig=sig, desc="%s (history: %s)" % (v[1], json.dumps(h2)), replay=dict(history=h2)))
                    continue
                nxt.append(h2)
        frontier = nxt
    res["distinct"] = res["states"]
    res["extra"]["max_depth"] = maxd
    res["samples"] = [dict(history=[["newroute", ["10.1.0.0", 16], "10.0.0.1"], ["newroute", ["10.1.0.0", 24], "10.0.0.1"], ["newneigh", "10.0.0.1"], ["delroute", ["10.1.0.0", 16]]])]
    return res


_MOD = None


def _h(key):
    return hashlib.sha1(key.encode()).digest()[:12]


def _expand(hist):
    """successors of one state: (event, hash of the canonical key, deviation or None)"""
    out = []
    for ev in build(_MOD, hist).enabled():
        w = build(_MOD, hist + [ev])
        out.append((ev, _h(w.key()), w.check()))
    return out


def main():
    mod = load_module()
    if REPLAY:
        case = json.load(open(REPLAY))["case"]
        w = build(mod, [tuple(e) if not isinstance(e, list) else e for e in case["history"]])
        v = w.check()
        res = dict(evaluations=len(case["history"]), states=1, transitions=len(case["history"]), distinct=2, traces=1, samples=[case], findings=[], exhaustive=True, extra={}, outcomes={})
        if v:
            res["findings"].append(dict(sig="c20:%s:after=%s" % (v[0], case["history"][-1][0]), desc=v[1], replay=case))
    else:
        depth = 7 if TIER == "quick" else 9
        nproc = max(1, min(16, int(os.environ.get("VERIF_NPROC", "1"))))
        global _MOD
        _MOD = mod
        if nproc == 1:
            res = explore(mod, depth)
        else:
            import multiprocessing
            with multiprocessing.get_context("fork").Pool(nproc) as pool:
                res = explore(mod, depth, pool)
        res["extra"]["worker_processes"] = nproc
    if OUT:
        json.dump(res, open(OUT, "w"))
    else:
        print(json.dumps(res, indent=1)[:3000])


if __name__ == "__main__":
    main()
